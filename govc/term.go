package main

// SMT terms with hash-consing and an on-the-fly simplifier.
// Sorts: Bool, BV(w), Int, Array(idx,elem), uninterpreted.

import (
	"fmt"
	"math/big"
	"sort"
	"strings"
	"sync"
)

type SortKind int

const (
	SBool SortKind = iota
	SBV
	SInt
	SArray
	SUnint
)

type Sort struct {
	Kind  SortKind
	Width int
	Idx   *Sort
	Elem  *Sort
	Name  string
	str   string
}

var sortTab = map[string]*Sort{}
var sortMu sync.Mutex

func internSort(s *Sort) *Sort {
	var k string
	switch s.Kind {
	case SBool:
		k = "Bool"
	case SBV:
		k = fmt.Sprintf("(_ BitVec %d)", s.Width)
	case SInt:
		k = "Int"
	case SArray:
		k = fmt.Sprintf("(Array %s %s)", s.Idx.str, s.Elem.str)
	case SUnint:
		k = s.Name
	}
	sortMu.Lock()
	defer sortMu.Unlock()
	if o, ok := sortTab[k]; ok {
		return o
	}
	s.str = k
	sortTab[k] = s
	return s
}

var (
	BoolSort = internSort(&Sort{Kind: SBool})
	IntSort  = internSort(&Sort{Kind: SInt})
)

func BVSort(w int) *Sort          { return internSort(&Sort{Kind: SBV, Width: w}) }
func ArraySort(i, e *Sort) *Sort  { return internSort(&Sort{Kind: SArray, Idx: i, Elem: e}) }
func UnintSort(name string) *Sort { return internSort(&Sort{Kind: SUnint, Name: name}) }
func (s *Sort) String() string    { return s.str }

type Term struct {
	Op   string // "const","var","app", or SMT op name
	Args []*Term
	Sort *Sort
	Val  *big.Int // const (BV: unsigned value; Int: value; Bool: 0/1)
	Name string   // var / app name; for extract etc the indexed op text
	P1   int      // extract hi / ext amount
	P2   int      // extract lo
	Bnd  []*Term  // quantifier bound vars
	Pats [][]*Term
	id   int
	// lin cache for BV/Int affine form
	lin *linForm
}

type TermBank struct {
	tab    map[string]*Term
	n      int
	ufs    map[string]*ufDecl
	sorts  map[string]*Sort // uninterpreted sorts used
	fresh  int
	ranges map[*Term][2]*big.Int // known signed ranges of atoms (for div/mod rewriting); set by executor
}

type ufDecl struct {
	Name string
	Args []*Sort
	Ret  *Sort
}

func NewBank() *TermBank {
	return &TermBank{tab: map[string]*Term{}, ufs: map[string]*ufDecl{}, sorts: map[string]*Sort{}, ranges: map[*Term][2]*big.Int{}}
}

func (b *TermBank) intern(t *Term) *Term {
	var sb strings.Builder
	sb.WriteString(t.Op)
	sb.WriteByte('|')
	sb.WriteString(t.Sort.str)
	sb.WriteByte('|')
	sb.WriteString(t.Name)
	if t.Val != nil {
		sb.WriteByte('#')
		sb.WriteString(t.Val.String())
	}
	fmt.Fprintf(&sb, "|%d,%d", t.P1, t.P2)
	for _, a := range t.Args {
		fmt.Fprintf(&sb, ",%d", a.id)
	}
	for _, a := range t.Bnd {
		fmt.Fprintf(&sb, ";%d", a.id)
	}
	for _, p := range t.Pats {
		sb.WriteString(":p")
		for _, a := range p {
			fmt.Fprintf(&sb, ",%d", a.id)
		}
	}
	k := sb.String()
	if o, ok := b.tab[k]; ok {
		return o
	}
	b.n++
	t.id = b.n
	b.tab[k] = t
	for st := []*Sort{t.Sort}; len(st) > 0; {
		s := st[len(st)-1]
		st = st[:len(st)-1]
		switch s.Kind {
		case SUnint:
			b.sorts[s.Name] = s
		case SArray:
			// an array over an uninterpreted sort needs that sort declared even when no term of it occurs
			st = append(st, s.Idx, s.Elem)
		}
	}
	return t
}

// ---------- leaves

func (b *TermBank) Var(name string, s *Sort) *Term {
	return b.intern(&Term{Op: "var", Name: name, Sort: s})
}

func (b *TermBank) Fresh(prefix string, s *Sort) *Term {
	b.fresh++
	return b.Var(fmt.Sprintf("%s!%d", sanitize(prefix), b.fresh), s)
}

func sanitize(s string) string {
	var sb strings.Builder
	for _, r := range s {
		if (r >= 'a' && r <= 'z') || (r >= 'A' && r <= 'Z') || (r >= '0' && r <= '9') || r == '_' || r == '.' || r == '!' {
			sb.WriteRune(r)
		} else {
			sb.WriteByte('_')
		}
	}
	return sb.String()
}

func (b *TermBank) True() *Term {
	return b.intern(&Term{Op: "const", Sort: BoolSort, Val: big.NewInt(1)})
}
func (b *TermBank) False() *Term {
	return b.intern(&Term{Op: "const", Sort: BoolSort, Val: big.NewInt(0)})
}
func (b *TermBank) Bool(v bool) *Term {
	if v {
		return b.True()
	}
	return b.False()
}

func (b *TermBank) BVConst(v *big.Int, w int) *Term {
	m := new(big.Int).Lsh(big.NewInt(1), uint(w))
	x := new(big.Int).Mod(v, m)
	if x.Sign() < 0 {
		x.Add(x, m)
	}
	return b.intern(&Term{Op: "const", Sort: BVSort(w), Val: x})
}
func (b *TermBank) BV(v int64, w int) *Term { return b.BVConst(big.NewInt(v), w) }
func (b *TermBank) IntConst(v *big.Int) *Term {
	return b.intern(&Term{Op: "const", Sort: IntSort, Val: new(big.Int).Set(v)})
}
func (b *TermBank) Int(v int64) *Term { return b.IntConst(big.NewInt(v)) }

// Num makes a numeric constant of the given numeric sort.
func (b *TermBank) Num(v *big.Int, s *Sort) *Term {
	if s.Kind == SBV {
		return b.BVConst(v, s.Width)
	}
	return b.IntConst(v)
}

func (t *Term) IsConst() bool { return t.Op == "const" }
func (t *Term) IsTrue() bool  { return t.Op == "const" && t.Sort == BoolSort && t.Val.Sign() != 0 }
func (t *Term) IsFalse() bool { return t.Op == "const" && t.Sort == BoolSort && t.Val.Sign() == 0 }

// signed value of a BV constant
func (t *Term) SVal() *big.Int {
	if t.Sort.Kind != SBV {
		return t.Val
	}
	w := t.Sort.Width
	if t.Val.Bit(w-1) == 1 {
		return new(big.Int).Sub(t.Val, new(big.Int).Lsh(big.NewInt(1), uint(w)))
	}
	return t.Val
}

// ---------- generic application

func (b *TermBank) mk(op string, s *Sort, args ...*Term) *Term {
	return b.intern(&Term{Op: op, Sort: s, Args: args})
}

func (b *TermBank) App(name string, ret *Sort, args ...*Term) *Term {
	if _, ok := b.ufs[name]; !ok {
		d := &ufDecl{Name: name, Ret: ret}
		for _, a := range args {
			d.Args = append(d.Args, a.Sort)
		}
		b.ufs[name] = d
	} else {
		d := b.ufs[name]
		if len(d.Args) != len(args) || d.Ret != ret {
			panic(fmt.Sprintf("uf %s redeclared with different signature", name))
		}
		for i, a := range args {
			if d.Args[i] != a.Sort {
				panic(fmt.Sprintf("uf %s arg %d sort mismatch: %s vs %s", name, i, d.Args[i], a.Sort))
			}
		}
	}
	if len(args) == 0 {
		return b.Var(name, ret)
	}
	return b.intern(&Term{Op: "app", Name: name, Sort: ret, Args: args})
}

// ---------- boolean

func (b *TermBank) Not(x *Term) *Term {
	if x.IsConst() {
		return b.Bool(x.IsFalse())
	}
	if x.Op == "not" {
		return x.Args[0]
	}
	return b.mk("not", BoolSort, x)
}

func (b *TermBank) And(xs ...*Term) *Term {
	var out []*Term
	seen := map[*Term]bool{}
	var add func(x *Term) bool
	add = func(x *Term) bool {
		if x.IsFalse() {
			return false
		}
		if x.IsTrue() || seen[x] {
			return true
		}
		if x.Op == "and" {
			for _, a := range x.Args {
				if !add(a) {
					return false
				}
			}
			return true
		}
		seen[x] = true
		out = append(out, x)
		return true
	}
	for _, x := range xs {
		if !add(x) {
			return b.False()
		}
	}
	for _, x := range out {
		if seen[b.Not(x)] {
			return b.False()
		}
	}
	if len(out) == 0 {
		return b.True()
	}
	if len(out) == 1 {
		return out[0]
	}
	return b.mk("and", BoolSort, out...)
}

func (b *TermBank) Or(xs ...*Term) *Term {
	var out []*Term
	seen := map[*Term]bool{}
	var add func(x *Term) bool
	add = func(x *Term) bool {
		if x.IsTrue() {
			return false
		}
		if x.IsFalse() || seen[x] {
			return true
		}
		if x.Op == "or" {
			for _, a := range x.Args {
				if !add(a) {
					return false
				}
			}
			return true
		}
		seen[x] = true
		out = append(out, x)
		return true
	}
	for _, x := range xs {
		if !add(x) {
			return b.True()
		}
	}
	for _, x := range out {
		if seen[b.Not(x)] {
			return b.True()
		}
	}
	if len(out) == 0 {
		return b.False()
	}
	if len(out) == 1 {
		return out[0]
	}
	return b.mk("or", BoolSort, out...)
}

func (b *TermBank) Implies(x, y *Term) *Term { return b.Or(b.Not(x), y) }

func (b *TermBank) Ite(c, x, y *Term) *Term {
	if c.IsTrue() {
		return x
	}
	if c.IsFalse() {
		return y
	}
	if x == y {
		return x
	}
	if x.Sort != y.Sort {
		panic(fmt.Sprintf("ite sort mismatch %s vs %s", x.Sort, y.Sort))
	}
	if x.Sort == BoolSort {
		if x.IsTrue() && y.IsFalse() {
			return c
		}
		if x.IsFalse() && y.IsTrue() {
			return b.Not(c)
		}
		if x.IsTrue() {
			return b.Or(c, y)
		}
		if x.IsFalse() {
			return b.And(b.Not(c), y)
		}
		if y.IsTrue() {
			return b.Or(b.Not(c), x)
		}
		if y.IsFalse() {
			return b.And(c, x)
		}
	}
	// ite(c, x, ite(c, _, z)) -> ite(c, x, z)
	if y.Op == "ite" && y.Args[0] == c {
		return b.Ite(c, x, y.Args[2])
	}
	if x.Op == "ite" && x.Args[0] == c {
		return b.Ite(c, x.Args[1], y)
	}
	return b.mk("ite", x.Sort, c, x, y)
}

func (b *TermBank) Eq(x, y *Term) *Term {
	if x == y {
		return b.True()
	}
	if x.Sort != y.Sort {
		panic(fmt.Sprintf("eq sort mismatch %s vs %s (%s, %s)", x.Sort, y.Sort, b.Show(x), b.Show(y)))
	}
	if x.IsConst() && y.IsConst() {
		return b.Bool(x.Val.Cmp(y.Val) == 0)
	}
	if x.Sort == BoolSort {
		if x.IsTrue() {
			return y
		}
		if y.IsTrue() {
			return x
		}
		if x.IsFalse() {
			return b.Not(y)
		}
		if y.IsFalse() {
			return b.Not(x)
		}
	}
	if x.Sort.Kind == SBV || x.Sort.Kind == SInt {
		// affine: x - y == 0 with constant difference
		d := b.Sub(x, y)
		if d.IsConst() {
			return b.Bool(d.Val.Sign() == 0)
		}
	}
	if x.id > y.id {
		x, y = y, x
	}
	return b.mk("=", BoolSort, x, y)
}

func (b *TermBank) Neq(x, y *Term) *Term { return b.Not(b.Eq(x, y)) }

// ---------- arrays

func (b *TermBank) Select(a, i *Term) *Term {
	if a.Sort.Kind != SArray {
		panic("select on non-array " + a.Sort.str)
	}
	if a.Sort.Idx != i.Sort {
		panic(fmt.Sprintf("select index sort %s on %s", i.Sort, a.Sort))
	}
	// read-over-write with decidable index comparison
	for a.Op == "store" {
		e := b.Eq(a.Args[1], i)
		if e.IsTrue() {
			return a.Args[2]
		}
		if e.IsFalse() {
			a = a.Args[0]
			continue
		}
		break
	}
	if a.Op == "constarr" {
		return a.Args[0]
	}
	return b.mk("select", a.Sort.Elem, a, i)
}

func (b *TermBank) Store(a, i, v *Term) *Term {
	if a.Sort.Idx != i.Sort || a.Sort.Elem != v.Sort {
		panic(fmt.Sprintf("store sort mismatch: %s [%s] := %s", a.Sort, i.Sort, v.Sort))
	}
	if a.Op == "store" && a.Args[1] == i {
		a = a.Args[0]
	}
	return b.mk("store", a.Sort, a, i, v)
}

func (b *TermBank) ConstArray(s *Sort, v *Term) *Term {
	return b.mk("constarr", s, v)
}

// ---------- quantifiers

func (b *TermBank) Forall(vars []*Term, body *Term, pats ...[]*Term) *Term {
	if body.IsTrue() {
		return body
	}
	return b.intern(&Term{Op: "forall", Sort: BoolSort, Args: []*Term{body}, Bnd: vars, Pats: pats})
}

func (b *TermBank) Exists(vars []*Term, body *Term) *Term {
	if body.IsFalse() {
		return body
	}
	return b.intern(&Term{Op: "exists", Sort: BoolSort, Args: []*Term{body}, Bnd: vars})
}

// ---------- numeric (BV and Int share constructors; dispatch on sort)

type linForm struct {
	k     *big.Int
	atoms []*Term
	coefs []*big.Int
}

func (b *TermBank) modw(v *big.Int, s *Sort) *big.Int {
	if s.Kind != SBV {
		return v
	}
	m := new(big.Int).Lsh(big.NewInt(1), uint(s.Width))
	x := new(big.Int).Mod(v, m)
	return x
}

// signed canonical representative for printing coefficients
func (b *TermBank) smod(v *big.Int, s *Sort) *big.Int {
	if s.Kind != SBV {
		return v
	}
	x := b.modw(v, s)
	if x.Bit(s.Width-1) == 1 {
		x = new(big.Int).Sub(x, new(big.Int).Lsh(big.NewInt(1), uint(s.Width)))
	}
	return x
}

func (b *TermBank) linOf(t *Term) *linForm {
	if t.lin != nil {
		return t.lin
	}
	var l *linForm
	if t.IsConst() {
		l = &linForm{k: t.SVal()}
	} else {
		l = &linForm{k: big.NewInt(0), atoms: []*Term{t}, coefs: []*big.Int{big.NewInt(1)}}
	}
	t.lin = l
	return l
}

func (b *TermBank) fromLin(l *linForm, s *Sort) *Term {
	// normalise: merge, drop zero, sort by id
	type ac struct {
		a *Term
		c *big.Int
	}
	m := map[*Term]*big.Int{}
	for i, a := range l.atoms {
		if c, ok := m[a]; ok {
			m[a] = new(big.Int).Add(c, l.coefs[i])
		} else {
			m[a] = new(big.Int).Set(l.coefs[i])
		}
	}
	var acs []ac
	for a, c := range m {
		c = b.smod(c, s)
		if c.Sign() != 0 {
			acs = append(acs, ac{a, c})
		}
	}
	sort.Slice(acs, func(i, j int) bool { return acs[i].a.id < acs[j].a.id })
	k := b.smod(l.k, s)
	nl := &linForm{k: k}
	for _, x := range acs {
		nl.atoms = append(nl.atoms, x.a)
		nl.coefs = append(nl.coefs, x.c)
	}
	if len(acs) == 0 {
		return b.Num(k, s)
	}
	if len(acs) == 1 && k.Sign() == 0 && acs[0].c.Cmp(big.NewInt(1)) == 0 {
		return acs[0].a
	}
	// build term
	addOp, mulOp := "+", "*"
	if s.Kind == SBV {
		addOp, mulOp = "bvadd", "bvmul"
	}
	var parts []*Term
	for _, x := range acs {
		if x.c.Cmp(big.NewInt(1)) == 0 {
			parts = append(parts, x.a)
		} else {
			parts = append(parts, b.mk(mulOp, s, b.Num(x.c, s), x.a))
		}
	}
	if k.Sign() != 0 {
		parts = append(parts, b.Num(k, s))
	}
	var t *Term
	if len(parts) == 1 {
		t = parts[0]
	} else {
		t = b.mk(addOp, s, parts...)
	}
	if t.lin == nil {
		t.lin = nl
	}
	return t
}

func (b *TermBank) Add(x, y *Term) *Term {
	b.sameNum(x, y, "add")
	lx, ly := b.linOf(x), b.linOf(y)
	l := &linForm{k: new(big.Int).Add(lx.k, ly.k)}
	l.atoms = append(append([]*Term{}, lx.atoms...), ly.atoms...)
	l.coefs = append(append([]*big.Int{}, lx.coefs...), ly.coefs...)
	return b.fromLin(l, x.Sort)
}

func (b *TermBank) Neg(x *Term) *Term {
	lx := b.linOf(x)
	l := &linForm{k: new(big.Int).Neg(lx.k)}
	for i, a := range lx.atoms {
		l.atoms = append(l.atoms, a)
		l.coefs = append(l.coefs, new(big.Int).Neg(lx.coefs[i]))
	}
	return b.fromLin(l, x.Sort)
}

func (b *TermBank) Sub(x, y *Term) *Term {
	b.sameNum(x, y, "sub")
	return b.Add(x, b.Neg(y))
}

func (b *TermBank) sameNum(x, y *Term, what string) {
	if x.Sort != y.Sort || (x.Sort.Kind != SBV && x.Sort.Kind != SInt) {
		panic(fmt.Sprintf("%s: sorts %s, %s (%s ; %s)", what, x.Sort, y.Sort, b.Show(x), b.Show(y)))
	}
}

func (b *TermBank) Mul(x, y *Term) *Term {
	b.sameNum(x, y, "mul")
	if y.IsConst() && !x.IsConst() {
		x, y = y, x
	}
	if x.IsConst() {
		c := x.SVal()
		ly := b.linOf(y)
		l := &linForm{k: new(big.Int).Mul(ly.k, c)}
		for i, a := range ly.atoms {
			l.atoms = append(l.atoms, a)
			l.coefs = append(l.coefs, new(big.Int).Mul(ly.coefs[i], c))
		}
		return b.fromLin(l, x.Sort)
	}
	if x.id > y.id {
		x, y = y, x
	}
	if x.Sort.Kind == SBV {
		return b.mk("bvmul", x.Sort, x, y)
	}
	return b.mk("*", x.Sort, x, y)
}

// rangeOf returns a conservative signed interval of t (mathematical value of
// the affine form, assuming no wrap); ok=false if unknown.
func (b *TermBank) rangeOf(t *Term) (lo, hi *big.Int, ok bool) {
	if t.IsConst() {
		v := t.SVal()
		return v, v, true
	}
	if r, ok := b.ranges[t]; ok {
		return r[0], r[1], true
	}
	switch t.Op {
	case "zext":
		w := t.Args[0].Sort.Width
		return big.NewInt(0), new(big.Int).Sub(new(big.Int).Lsh(big.NewInt(1), uint(w)), big.NewInt(1)), true
	case "ite":
		l1, h1, ok1 := b.rangeOf(t.Args[1])
		l2, h2, ok2 := b.rangeOf(t.Args[2])
		if ok1 && ok2 {
			lo, hi = l1, h1
			if l2.Cmp(lo) < 0 {
				lo = l2
			}
			if h2.Cmp(hi) > 0 {
				hi = h2
			}
			return lo, hi, true
		}
		return nil, nil, false
	}
	l := b.linOf(t)
	if len(l.atoms) == 1 && l.atoms[0] == t {
		return nil, nil, false
	}
	lo = new(big.Int).Set(l.k)
	hi = new(big.Int).Set(l.k)
	for i, a := range l.atoms {
		alo, ahi, ok := b.rangeOf(a)
		if !ok {
			return nil, nil, false
		}
		c := l.coefs[i]
		p1 := new(big.Int).Mul(c, alo)
		p2 := new(big.Int).Mul(c, ahi)
		if p1.Cmp(p2) > 0 {
			p1, p2 = p2, p1
		}
		lo.Add(lo, p1)
		hi.Add(hi, p2)
	}
	if t.Sort.Kind == SBV {
		// only meaningful if it cannot wrap
		w := uint(t.Sort.Width)
		min := new(big.Int).Neg(new(big.Int).Lsh(big.NewInt(1), w-1))
		max := new(big.Int).Sub(new(big.Int).Lsh(big.NewInt(1), w-1), big.NewInt(1))
		if lo.Cmp(min) < 0 || hi.Cmp(max) > 0 {
			return nil, nil, false
		}
	}
	return lo, hi, true
}

// SDiv: Go's truncated signed division.
func (b *TermBank) SDiv(x, y *Term) *Term {
	b.sameNum(x, y, "sdiv")
	if x.IsConst() && y.IsConst() && y.Val.Sign() != 0 {
		q := new(big.Int).Quo(x.SVal(), y.SVal())
		return b.Num(q, x.Sort)
	}
	if y.IsConst() && y.SVal().Sign() > 0 {
		d := y.SVal()
		if d.Cmp(big.NewInt(1)) == 0 {
			return x
		}
		// affine split: x = d*A + r, r>=0 const, value range non-negative and non-wrapping
		if lo, _, ok := b.rangeOf(x); ok && lo.Sign() >= 0 {
			l := b.linOf(x)
			all := true
			for _, c := range l.coefs {
				if new(big.Int).Mod(c, d).Sign() != 0 {
					all = false
				}
			}
			if all && l.k.Sign() >= 0 && len(l.atoms) > 0 {
				// A = sum (c/d)*a ; need A >= 0 too: since x>=0 and 0<=r... x = d*A + k, k>=0.
				// floor(x/d) = A + floor(k/d) requires d*A + k with A integer: true for any sign of A
				// when using floor division; Go truncates, equal to floor because x >= 0.
				nl := &linForm{k: new(big.Int).Div(l.k, d)}
				for i, a := range l.atoms {
					nl.atoms = append(nl.atoms, a)
					nl.coefs = append(nl.coefs, new(big.Int).Quo(l.coefs[i], d))
				}
				return b.fromLin(nl, x.Sort)
			}
		}
	}
	if x.Sort.Kind == SBV {
		return b.mk("bvsdiv", x.Sort, x, y)
	}
	return b.mk("godiv", x.Sort, x, y) // printed via ite on signs
}

// SRem: Go's truncated signed remainder.
func (b *TermBank) SRem(x, y *Term) *Term {
	b.sameNum(x, y, "srem")
	if x.IsConst() && y.IsConst() && y.Val.Sign() != 0 {
		r := new(big.Int).Rem(x.SVal(), y.SVal())
		return b.Num(r, x.Sort)
	}
	if y.IsConst() && y.SVal().Sign() > 0 {
		d := y.SVal()
		if lo, _, ok := b.rangeOf(x); ok && lo.Sign() >= 0 {
			l := b.linOf(x)
			all := true
			for _, c := range l.coefs {
				if new(big.Int).Mod(c, d).Sign() != 0 {
					all = false
				}
			}
			if all && l.k.Sign() >= 0 && len(l.atoms) > 0 {
				return b.Num(new(big.Int).Mod(l.k, d), x.Sort)
			}
		}
	}
	if x.Sort.Kind == SBV {
		return b.mk("bvsrem", x.Sort, x, y)
	}
	return b.mk("gorem", x.Sort, x, y)
}

func (b *TermBank) UDiv(x, y *Term) *Term {
	b.sameNum(x, y, "udiv")
	if x.IsConst() && y.IsConst() && y.Val.Sign() != 0 {
		return b.Num(new(big.Int).Quo(x.Val, y.Val), x.Sort)
	}
	return b.mk("bvudiv", x.Sort, x, y)
}

func (b *TermBank) URem(x, y *Term) *Term {
	b.sameNum(x, y, "urem")
	if x.IsConst() && y.IsConst() && y.Val.Sign() != 0 {
		return b.Num(new(big.Int).Rem(x.Val, y.Val), x.Sort)
	}
	return b.mk("bvurem", x.Sort, x, y)
}

// comparisons. signed=true for Go signed ints; Int sort ignores the flag.
func (b *TermBank) Lt(x, y *Term, signed bool) *Term {
	b.sameNum(x, y, "lt")
	if x == y {
		return b.False()
	}
	if x.IsConst() && y.IsConst() {
		if signed || x.Sort.Kind == SInt {
			return b.Bool(x.SVal().Cmp(y.SVal()) < 0)
		}
		return b.Bool(x.Val.Cmp(y.Val) < 0)
	}
	if signed || x.Sort.Kind == SInt {
		// decide by ranges when both are non-wrapping affine forms
		lx, hx, ok1 := b.rangeOf(x)
		ly, hy, ok2 := b.rangeOf(y)
		if ok1 && ok2 {
			if hx.Cmp(ly) < 0 {
				return b.True()
			}
			if lx.Cmp(hy) >= 0 {
				return b.False()
			}
		}
		// same atoms, constant difference, both non-wrapping
		if ok1 && ok2 {
			d := b.Sub(x, y)
			if d.IsConst() {
				return b.Bool(d.SVal().Sign() < 0)
			}
		}
	}
	if x.Sort.Kind == SInt {
		return b.mk("<", BoolSort, x, y)
	}
	if signed {
		return b.mk("bvslt", BoolSort, x, y)
	}
	return b.mk("bvult", BoolSort, x, y)
}

func (b *TermBank) Le(x, y *Term, signed bool) *Term { return b.Not(b.Lt(y, x, signed)) }
func (b *TermBank) Gt(x, y *Term, signed bool) *Term { return b.Lt(y, x, signed) }
func (b *TermBank) Ge(x, y *Term, signed bool) *Term { return b.Not(b.Lt(x, y, signed)) }

// ---------- BV-only ops

func (b *TermBank) bvBin(op string, x, y *Term, f func(a, c *big.Int) *big.Int) *Term {
	if x.Sort != y.Sort || x.Sort.Kind != SBV {
		panic(fmt.Sprintf("%s: sorts %s %s", op, x.Sort, y.Sort))
	}
	if x.IsConst() && y.IsConst() {
		return b.BVConst(f(x.Val, y.Val), x.Sort.Width)
	}
	return nil
}

func (b *TermBank) allOnes(w int) *big.Int {
	return new(big.Int).Sub(new(big.Int).Lsh(big.NewInt(1), uint(w)), big.NewInt(1))
}

func (b *TermBank) BVAnd(x, y *Term) *Term {
	if t := b.bvBin("bvand", x, y, func(a, c *big.Int) *big.Int { return new(big.Int).And(a, c) }); t != nil {
		return t
	}
	if x == y {
		return x
	}
	if y.IsConst() {
		x, y = y, x
	}
	if x.IsConst() {
		if x.Val.Sign() == 0 {
			return x
		}
		if x.Val.Cmp(b.allOnes(x.Sort.Width)) == 0 {
			return y
		}
	}
	if x.id > y.id {
		x, y = y, x
	}
	return b.mk("bvand", x.Sort, x, y)
}

func (b *TermBank) BVOr(x, y *Term) *Term {
	if t := b.bvBin("bvor", x, y, func(a, c *big.Int) *big.Int { return new(big.Int).Or(a, c) }); t != nil {
		return t
	}
	if x == y {
		return x
	}
	if y.IsConst() {
		x, y = y, x
	}
	if x.IsConst() {
		if x.Val.Sign() == 0 {
			return y
		}
		if x.Val.Cmp(b.allOnes(x.Sort.Width)) == 0 {
			return x
		}
	}
	if x.id > y.id {
		x, y = y, x
	}
	return b.mk("bvor", x.Sort, x, y)
}

func (b *TermBank) BVXor(x, y *Term) *Term {
	if t := b.bvBin("bvxor", x, y, func(a, c *big.Int) *big.Int { return new(big.Int).Xor(a, c) }); t != nil {
		return t
	}
	if x == y {
		return b.BV(0, x.Sort.Width)
	}
	if y.IsConst() {
		x, y = y, x
	}
	if x.IsConst() && x.Val.Sign() == 0 {
		return y
	}
	if x.id > y.id {
		x, y = y, x
	}
	return b.mk("bvxor", x.Sort, x, y)
}

func (b *TermBank) BVNot(x *Term) *Term {
	if x.IsConst() {
		return b.BVConst(new(big.Int).Xor(x.Val, b.allOnes(x.Sort.Width)), x.Sort.Width)
	}
	if x.Op == "bvnot" {
		return x.Args[0]
	}
	return b.mk("bvnot", x.Sort, x)
}

// shifts: y is the shift count as an unsigned BV of the same width as x
// (caller widens/clamps per Go semantics).
func (b *TermBank) Shl(x, y *Term) *Term {
	if x.Sort != y.Sort {
		panic("shl sorts")
	}
	w := x.Sort.Width
	if y.IsConst() {
		if y.Val.Cmp(big.NewInt(int64(w))) >= 0 {
			return b.BV(0, w)
		}
		n := uint(y.Val.Uint64())
		if n == 0 {
			return x
		}
		if x.IsConst() {
			return b.BVConst(new(big.Int).Lsh(x.Val, n), w)
		}
		// as concat(extract, zeros): helps the solver and keeps structure
		return b.Concat(b.Extract(x, w-1-int(n), 0), b.BV(0, int(n)))
	}
	return b.mk("bvshl", x.Sort, x, y)
}

func (b *TermBank) LShr(x, y *Term) *Term {
	if x.Sort != y.Sort {
		panic("lshr sorts")
	}
	w := x.Sort.Width
	if y.IsConst() {
		if y.Val.Cmp(big.NewInt(int64(w))) >= 0 {
			return b.BV(0, w)
		}
		n := uint(y.Val.Uint64())
		if n == 0 {
			return x
		}
		if x.IsConst() {
			return b.BVConst(new(big.Int).Rsh(x.Val, n), w)
		}
		return b.ZExt(b.Extract(x, w-1, int(n)), int(n))
	}
	return b.mk("bvlshr", x.Sort, x, y)
}

func (b *TermBank) AShr(x, y *Term) *Term {
	if x.Sort != y.Sort {
		panic("ashr sorts")
	}
	w := x.Sort.Width
	if y.IsConst() {
		n := w - 1
		if y.Val.Cmp(big.NewInt(int64(w))) < 0 {
			n = int(y.Val.Uint64())
		}
		if n == 0 {
			return x
		}
		if x.IsConst() {
			return b.BVConst(new(big.Int).Rsh(x.SVal(), uint(n)), w)
		}
		return b.SExt(b.Extract(x, w-1, n), n)
	}
	return b.mk("bvashr", x.Sort, x, y)
}

func (b *TermBank) Extract(x *Term, hi, lo int) *Term {
	w := x.Sort.Width
	if lo == 0 && hi == w-1 {
		return x
	}
	if hi < lo || hi >= w {
		panic(fmt.Sprintf("extract %d %d of width %d", hi, lo, w))
	}
	if x.IsConst() {
		v := new(big.Int).Rsh(x.Val, uint(lo))
		return b.BVConst(v, hi-lo+1)
	}
	switch x.Op {
	case "extract":
		return b.Extract(x.Args[0], x.P2+hi, x.P2+lo)
	case "zext":
		iw := x.Args[0].Sort.Width
		if hi < iw {
			return b.Extract(x.Args[0], hi, lo)
		}
		if lo >= iw {
			return b.BV(0, hi-lo+1)
		}
		return b.ZExt(b.Extract(x.Args[0], iw-1, lo), hi-iw+1)
	case "sext":
		iw := x.Args[0].Sort.Width
		if hi < iw {
			return b.Extract(x.Args[0], hi, lo)
		}
	case "concat":
		lw := x.Args[1].Sort.Width
		if hi < lw {
			return b.Extract(x.Args[1], hi, lo)
		}
		if lo >= lw {
			return b.Extract(x.Args[0], hi-lw, lo-lw)
		}
		return b.Concat(b.Extract(x.Args[0], hi-lw, 0), b.Extract(x.Args[1], lw-1, lo))
	case "bvand", "bvor", "bvxor":
		var f func(a, c *Term) *Term
		switch x.Op {
		case "bvand":
			f = b.BVAnd
		case "bvor":
			f = b.BVOr
		default:
			f = b.BVXor
		}
		return f(b.Extract(x.Args[0], hi, lo), b.Extract(x.Args[1], hi, lo))
	case "bvnot":
		return b.BVNot(b.Extract(x.Args[0], hi, lo))
	case "ite":
		if x.Args[1].IsConst() || x.Args[2].IsConst() {
			return b.Ite(x.Args[0], b.Extract(x.Args[1], hi, lo), b.Extract(x.Args[2], hi, lo))
		}
	}
	return b.intern(&Term{Op: "extract", Sort: BVSort(hi - lo + 1), Args: []*Term{x}, P1: hi, P2: lo})
}

func (b *TermBank) Concat(x, y *Term) *Term {
	if x.IsConst() && y.IsConst() {
		v := new(big.Int).Lsh(x.Val, uint(y.Sort.Width))
		v.Or(v, y.Val)
		return b.BVConst(v, x.Sort.Width+y.Sort.Width)
	}
	if x.IsConst() && x.Val.Sign() == 0 {
		return b.ZExt(y, x.Sort.Width)
	}
	// concat(extract(t,h,m+1), extract(t,m,l)) = extract(t,h,l)
	if x.Op == "extract" && y.Op == "extract" && x.Args[0] == y.Args[0] && x.P2 == y.P1+1 {
		return b.Extract(x.Args[0], x.P1, y.P2)
	}
	return b.mk("concat", BVSort(x.Sort.Width+y.Sort.Width), x, y)
}

func (b *TermBank) ZExt(x *Term, n int) *Term {
	if n == 0 {
		return x
	}
	if x.IsConst() {
		return b.BVConst(x.Val, x.Sort.Width+n)
	}
	if x.Op == "zext" {
		return b.ZExt(x.Args[0], n+x.P1)
	}
	return b.intern(&Term{Op: "zext", Sort: BVSort(x.Sort.Width + n), Args: []*Term{x}, P1: n})
}

func (b *TermBank) SExt(x *Term, n int) *Term {
	if n == 0 {
		return x
	}
	if x.IsConst() {
		return b.BVConst(x.SVal(), x.Sort.Width+n)
	}
	if x.Op == "zext" && x.P1 > 0 {
		return b.ZExt(x.Args[0], n+x.P1)
	}
	return b.intern(&Term{Op: "sext", Sort: BVSort(x.Sort.Width + n), Args: []*Term{x}, P1: n})
}

// ---------- printing

func (b *TermBank) constStr(t *Term) string {
	switch t.Sort.Kind {
	case SBool:
		if t.Val.Sign() != 0 {
			return "true"
		}
		return "false"
	case SBV:
		w := t.Sort.Width
		if w%4 == 0 {
			return fmt.Sprintf("#x%0*s", w/4, t.Val.Text(16))
		}
		return fmt.Sprintf("#b%0*s", w, t.Val.Text(2))
	case SInt:
		if t.Val.Sign() < 0 {
			return fmt.Sprintf("(- %s)", new(big.Int).Neg(t.Val).String())
		}
		return t.Val.String()
	}
	panic("const of sort " + t.Sort.str)
}

func smtName(n string) string {
	for _, r := range n {
		if !((r >= 'a' && r <= 'z') || (r >= 'A' && r <= 'Z') || (r >= '0' && r <= '9') || r == '_' || r == '.' || r == '!') {
			return "|" + n + "|"
		}
	}
	return n
}

// printer with sharing: nodes referenced more than once (outside quantifiers)
// become define-fun.
type printer struct {
	b     *TermBank
	refs  map[*Term]int
	names map[*Term]string
	defs  []string
	vars  map[*Term]bool
	bound map[*Term]bool
	hasBV bool
	hasQ  bool
	hasI  bool
	hasUF bool
	hasA  bool
	apps  map[string]bool
	fbv   map[*Term]map[*Term]bool
}

func (p *printer) count(t *Term, inQ bool) {
	p.refs[t]++
	if p.refs[t] > 1 {
		return
	}
	switch t.Sort.Kind {
	case SBV:
		p.hasBV = true
	case SInt:
		p.hasI = true
	case SArray:
		p.hasA = true
	case SUnint:
		p.hasUF = true
	}
	if t.Op == "var" && !p.bound[t] {
		p.vars[t] = true
	}
	if t.Op == "app" {
		p.apps[t.Name] = true
		p.hasUF = true
	}
	if t.Op == "forall" || t.Op == "exists" {
		p.hasQ = true
		for _, v := range t.Bnd {
			p.bound[v] = true
		}
		for _, pp := range t.Pats {
			for _, x := range pp {
				p.count(x, true)
			}
		}
	}
	for _, a := range t.Args {
		p.count(a, inQ)
	}
}

// hasBound: t mentions a quantified variable that is not bound inside t itself
// (such a term cannot be hoisted into a top-level define-fun; a closed
// quantified formula can).
func (p *printer) hasBound(t *Term, memo map[*Term]bool) bool {
	if v, ok := memo[t]; ok {
		return v
	}
	if p.fbv == nil {
		p.fbv = map[*Term]map[*Term]bool{}
	}
	r := len(p.freeBound(t)) > 0
	memo[t] = r
	return r
}

func (p *printer) freeBound(t *Term) map[*Term]bool {
	if v, ok := p.fbv[t]; ok {
		return v
	}
	var out map[*Term]bool
	if t.Op == "var" && p.bound[t] {
		out = map[*Term]bool{t: true}
	}
	add := func(m map[*Term]bool) {
		if len(m) == 0 {
			return
		}
		if out == nil {
			out = map[*Term]bool{}
		}
		for k := range m {
			out[k] = true
		}
	}
	for _, a := range t.Args {
		add(p.freeBound(a))
	}
	if t.Op == "forall" || t.Op == "exists" {
		for _, pp := range t.Pats {
			for _, x := range pp {
				add(p.freeBound(x))
			}
		}
		if len(out) > 0 {
			cp := map[*Term]bool{}
			for k := range out {
				cp[k] = true
			}
			for _, v := range t.Bnd {
				delete(cp, v)
			}
			out = cp
		}
	}
	p.fbv[t] = out
	return out
}

func (p *printer) str(t *Term, memo map[*Term]bool) string {
	if n, ok := p.names[t]; ok {
		return n
	}
	s := p.raw(t, memo)
	if len(t.Args) > 0 && p.refs[t] > 1 && !p.hasBound(t, memo) {
		n := fmt.Sprintf("n!%d", t.id)
		p.defs = append(p.defs, fmt.Sprintf("(define-fun %s () %s %s)", n, t.Sort.str, s))
		p.names[t] = n
		return n
	}
	return s
}

func (p *printer) raw(t *Term, memo map[*Term]bool) string {
	switch t.Op {
	case "const":
		return p.b.constStr(t)
	case "var":
		return smtName(t.Name)
	case "app":
		var sb strings.Builder
		sb.WriteString("(" + smtName(t.Name))
		for _, a := range t.Args {
			sb.WriteString(" " + p.str(a, memo))
		}
		sb.WriteString(")")
		return sb.String()
	case "extract":
		return fmt.Sprintf("((_ extract %d %d) %s)", t.P1, t.P2, p.str(t.Args[0], memo))
	case "zext":
		return fmt.Sprintf("((_ zero_extend %d) %s)", t.P1, p.str(t.Args[0], memo))
	case "sext":
		return fmt.Sprintf("((_ sign_extend %d) %s)", t.P1, p.str(t.Args[0], memo))
	case "constarr":
		return fmt.Sprintf("((as const %s) %s)", t.Sort.str, p.str(t.Args[0], memo))
	case "godiv":
		x, y := p.str(t.Args[0], memo), p.str(t.Args[1], memo)
		// truncated division on Int
		return fmt.Sprintf("(ite (>= %s 0) (ite (> %s 0) (div %s %s) (- (div %s (- %s)))) (ite (> %s 0) (- (div (- %s) %s)) (div (- %s) (- %s))))", x, y, x, y, x, y, y, x, y, x, y)
	case "gorem":
		x, y := p.str(t.Args[0], memo), p.str(t.Args[1], memo)
		return fmt.Sprintf("(ite (>= %s 0) (mod %s (abs %s)) (- (mod (- %s) (abs %s))))", x, x, y, x, y)
	case "forall", "exists":
		var sb strings.Builder
		sb.WriteString("(" + t.Op + " (")
		for _, v := range t.Bnd {
			fmt.Fprintf(&sb, "(%s %s)", smtName(v.Name), v.Sort.str)
		}
		sb.WriteString(") ")
		body := p.str(t.Args[0], memo)
		if len(t.Pats) > 0 {
			sb.WriteString("(! " + body)
			for _, pp := range t.Pats {
				sb.WriteString(" :pattern (")
				for i, x := range pp {
					if i > 0 {
						sb.WriteString(" ")
					}
					sb.WriteString(p.str(x, memo))
				}
				sb.WriteString(")")
			}
			sb.WriteString(")")
		} else {
			sb.WriteString(body)
		}
		sb.WriteString(")")
		return sb.String()
	}
	if len(t.Args) > 2 && (t.Op == "bvadd" || t.Op == "bvmul" || t.Op == "bvand" || t.Op == "bvor" || t.Op == "bvxor") {
		acc := p.str(t.Args[0], memo)
		for _, a := range t.Args[1:] {
			acc = "(" + t.Op + " " + acc + " " + p.str(a, memo) + ")"
		}
		return acc
	}
	var sb strings.Builder
	sb.WriteString("(" + t.Op)
	for _, a := range t.Args {
		sb.WriteString(" " + p.str(a, memo))
	}
	sb.WriteString(")")
	return sb.String()
}

// Script renders a satisfiability query: assert all of `asserts`.
// inputs: terms whose values should be reported on sat (get-value).
func (b *TermBank) Script(asserts []*Term, inputs []*Term, extraAxioms []string) (script string, logicHint string) {
	p := &printer{b: b, refs: map[*Term]int{}, names: map[*Term]string{}, vars: map[*Term]bool{}, bound: map[*Term]bool{}, apps: map[string]bool{}}
	for _, a := range asserts {
		p.count(a, false)
	}
	for _, a := range inputs {
		p.count(a, false)
	}
	memo := map[*Term]bool{}
	var body []string
	for _, a := range asserts {
		s := p.str(a, memo)
		body = append(body, fmt.Sprintf("(assert %s)", s))
	}
	var ins []string
	for _, a := range inputs {
		ins = append(ins, p.str(a, memo))
	}
	var sb strings.Builder
	// sorts
	var snames []string
	for n := range b.sorts {
		snames = append(snames, n)
	}
	sort.Strings(snames)
	for _, n := range snames {
		fmt.Fprintf(&sb, "(declare-sort %s 0)\n", n)
	}
	var vs []*Term
	for v := range p.vars {
		vs = append(vs, v)
	}
	sort.Slice(vs, func(i, j int) bool { return vs[i].id < vs[j].id })
	for _, v := range vs {
		fmt.Fprintf(&sb, "(declare-fun %s () %s)\n", smtName(v.Name), v.Sort.str)
	}
	var an []string
	for n := range p.apps {
		an = append(an, n)
	}
	sort.Strings(an)
	for _, n := range an {
		d := b.ufs[n]
		var as []string
		for _, a := range d.Args {
			as = append(as, a.str)
		}
		fmt.Fprintf(&sb, "(declare-fun %s (%s) %s)\n", smtName(n), strings.Join(as, " "), d.Ret.str)
	}
	for _, ax := range extraAxioms {
		sb.WriteString(ax + "\n")
	}
	for _, d := range p.defs {
		sb.WriteString(d + "\n")
	}
	for _, s := range body {
		sb.WriteString(s + "\n")
	}
	sb.WriteString("(check-sat)\n")
	if len(ins) > 0 {
		sb.WriteString("(get-value (" + strings.Join(ins, " ") + "))\n")
	}
	logic := "ALL"
	if !p.hasQ && !p.hasI && !p.hasUF && !p.hasA && p.hasBV {
		logic = "QF_BV"
	} else if !p.hasQ && !p.hasI && p.hasBV && !p.hasUF {
		logic = "QF_ABV"
	} else if !p.hasQ && !p.hasI && p.hasBV {
		logic = "QF_AUFBV"
	}
	return sb.String(), logic
}

// Show renders a term compactly for diagnostics (depth/size limited).
func (b *TermBank) Show(t *Term) string {
	var sb strings.Builder
	budget := 60
	var rec func(t *Term, d int)
	rec = func(t *Term, d int) {
		if budget <= 0 || d > 8 {
			sb.WriteString("…")
			return
		}
		budget--
		switch t.Op {
		case "const":
			sb.WriteString(b.constStr(t))
			return
		case "var":
			sb.WriteString(t.Name)
			return
		}
		name := t.Op
		if t.Op == "app" {
			name = t.Name
		}
		if t.Op == "extract" {
			name = fmt.Sprintf("(_ extract %d %d)", t.P1, t.P2)
		}
		sb.WriteString("(" + name)
		for _, a := range t.Args {
			sb.WriteString(" ")
			rec(a, d+1)
		}
		sb.WriteString(")")
	}
	rec(t, 0)
	return sb.String()
}
