package main

import (
	"fmt"
	"go/ast"
	"go/constant"
	"go/token"
	"go/types"
	"math/big"
	"strings"
)

func (x *Exec) constInt(v int64) *Value {
	return &Value{T: types.Typ[types.UntypedInt], C: constant.MakeInt64(v)}
}

func (x *Exec) typeOf(e ast.Expr) types.Type {
	if x.spec > 0 {
		return nil
	}
	return x.eng.info.TypeOf(e)
}

// eval evaluates an expression to a single value.
func (x *Exec) eval(st *State, e ast.Expr) *Value {
	vs := x.evalMulti(st, e)
	if len(vs) == 0 {
		x.fail("expression %s yields no value", x.eng.srcText(e))
		return x.constInt(0)
	}
	return vs[0]
}

func (x *Exec) evalMulti(st *State, e ast.Expr) []*Value {
	if x.failed != nil {
		return []*Value{x.constInt(0)}
	}
	// program constants: use go/types' folding
	if x.spec == 0 {
		if tv, ok := x.eng.info.Types[e]; ok && tv.Value != nil {
			return []*Value{x.constValue(tv.Value, tv.Type)}
		}
	}
	switch e := e.(type) {
	case *ast.ParenExpr:
		return x.evalMulti(st, e.X)
	case *ast.BasicLit:
		return []*Value{x.litValue(e)}
	case *ast.Ident:
		return []*Value{x.evalIdent(st, e)}
	case *ast.BinaryExpr:
		return []*Value{x.evalBinary(st, e)}
	case *ast.UnaryExpr:
		return []*Value{x.evalUnary(st, e)}
	case *ast.CallExpr:
		return x.evalCall(st, e)
	case *ast.SelectorExpr:
		return []*Value{x.evalSelector(st, e)}
	case *ast.IndexExpr:
		return x.evalIndex(st, e, false)
	case *ast.SliceExpr:
		return []*Value{x.evalSlice(st, e)}
	case *ast.StarExpr:
		p := x.eval(st, e.X)
		x.checkNonNil(st, e, p.scalar())
		pt, ok := p.T.Underlying().(*types.Pointer)
		if !ok {
			x.fail("deref of non-pointer")
			return []*Value{x.constInt(0)}
		}
		if _, ok := pt.Elem().Underlying().(*types.Struct); ok && kindOf(pt.Elem()) == kStruct {
			return []*Value{x.loadStruct(st, p.scalar(), pt.Elem())}
		}
		return []*Value{x.loadCell(st, p.scalar(), pt.Elem())}
	case *ast.CompositeLit:
		return []*Value{x.evalCompositeLit(st, e)}
	case *ast.TypeAssertExpr:
		return x.evalTypeAssert(st, e, false)
	case *ast.FuncLit:
		t := x.eng.info.TypeOf(e)
		v := scalarV(t, x.allocRef(st))
		v.Fn = &closure{lit: e}
		return []*Value{v}
	case *ast.KeyValueExpr:
		x.fail("unexpected key-value expression")
	}
	x.fail("unsupported expression %T (%s)", e, x.eng.srcText(e))
	return []*Value{x.constInt(0)}
}

func (x *Exec) litValue(e *ast.BasicLit) *Value {
	switch e.Kind {
	case token.INT:
		return &Value{T: types.Typ[types.UntypedInt], C: constant.MakeFromLiteral(e.Value, token.INT, 0)}
	case token.STRING:
		return &Value{T: types.Typ[types.UntypedString], C: constant.MakeFromLiteral(e.Value, token.STRING, 0)}
	case token.CHAR:
		return &Value{T: types.Typ[types.UntypedRune], C: constant.MakeFromLiteral(e.Value, token.CHAR, 0)}
	case token.FLOAT:
		return &Value{T: types.Typ[types.UntypedFloat], C: constant.MakeFromLiteral(e.Value, token.FLOAT, 0)}
	}
	x.fail("unsupported literal %s", e.Value)
	return x.constInt(0)
}

// constValue materialises a typed constant; untyped ones stay symbolic-free.
func (x *Exec) constValue(c constant.Value, t types.Type) *Value {
	v := &Value{T: t, C: c}
	if b, ok := t.(*types.Basic); ok && b.Info()&types.IsUntyped != 0 {
		return v
	}
	return x.convertConst(v, t)
}

func (x *Exec) convertConst(v *Value, t types.Type) *Value {
	if v.L != nil {
		return v
	}
	c := v.C
	switch kindOf(t) {
	case kBool:
		return scalarV(t, x.b.Bool(constant.BoolVal(c)))
	case kInt:
		w, _ := intInfo(t)
		bi := constToBig(c)
		if bi == nil {
			x.fail("constant %v is not an integer", c)
			bi = big.NewInt(0)
		}
		return scalarV(t, x.b.Num(bi, x.intSort(w)))
	case kTime:
		bi := constToBig(c)
		if bi == nil {
			bi = big.NewInt(0)
		}
		return scalarV(t, x.b.Num(bi, x.intSort(64)))
	case kFloat:
		return scalarV(t, x.b.App("f64.lit."+sanitize(c.ExactString()), F64Sort))
	case kString:
		if c.Kind() == constant.String {
			return scalarV(t, x.strLit(constant.StringVal(c)))
		}
		if bi := constToBig(c); bi != nil { // string(rune)
			return scalarV(t, x.strLit(string(rune(bi.Int64()))))
		}
	case kRef:
		return scalarV(t, x.b.Int(0))
	case kSlice, kIface, kStruct, kArray:
		// nil
		return x.zeroValue(t)
	}
	x.fail("cannot convert constant %v to %v", c, t)
	return x.zeroValue(t)
}

func constToBig(c constant.Value) *big.Int {
	c = constant.ToInt(c)
	if c.Kind() != constant.Int {
		return nil
	}
	if v, ok := constant.Int64Val(c); ok {
		return big.NewInt(v)
	}
	bi, ok := new(big.Int).SetString(c.ExactString(), 10)
	if !ok {
		return nil
	}
	return bi
}

func (x *Exec) strLit(s string) *Term {
	if t, ok := x.strLits[s]; ok {
		return t
	}
	t := x.b.Var(fmt.Sprintf("strlit!%d", len(x.strLits)), StrSort)
	x.strLits[s] = t
	return t
}

func (x *Exec) strLen(s *Term) *Term { return x.b.App("gostr.len", x.idxSort(), s) }
func (x *Exec) strArr(s *Term) *Term {
	return x.b.App("gostr.arr", ArraySort(x.idxSort(), x.intSort(8)), s)
}

// ---------- identifiers

func (x *Exec) evalIdent(st *State, id *ast.Ident) *Value {
	if x.spec > 0 {
		return x.evalSpecIdent(st, id)
	}
	obj := x.eng.info.Uses[id]
	if obj == nil {
		obj = x.eng.info.Defs[id]
	}
	if obj == nil {
		x.fail("unresolved identifier %s", id.Name)
		return x.constInt(0)
	}
	return x.valueOfObj(st, obj, id.Name)
}

func (x *Exec) valueOfObj(st *State, obj types.Object, name string) *Value {
	switch o := obj.(type) {
	case *types.Nil:
		return &Value{T: types.Typ[types.UntypedNil], C: nil}
	case *types.Const:
		return x.constValue(o.Val(), o.Type())
	case *types.Var:
		if r, ok := st.addr[o]; ok {
			// address-taken local: its value lives in the heap
			if kindOf(o.Type()) == kStruct {
				return x.loadStruct(st, r, o.Type())
			}
			return x.loadCell(st, r, o.Type())
		}
		if v, ok := st.env[o]; ok {
			return v
		}
		if o.Parent() == x.eng.pkg.Types.Scope() || (o.Pkg() != nil && o.Parent() == o.Pkg().Scope()) {
			return x.globalVar(st, o)
		}
		// captured variable of an enclosing function not modelled, or unset
		v := x.freshValue(o.Type(), o.Name())
		x.assumeWellFormed(st, v)
		st.env[o] = v
		return v
	case *types.Func:
		v := scalarV(o.Type(), x.b.Var("func."+funcQual(o), RefSort))
		return v
	case *types.Builtin, *types.TypeName:
		if x.softNames {
			// an "ensures internal" clause names a local that shares its name with a type and
			// is not in scope at this exit: skip the clause here
			panic(softMiss{})
		}
		x.fail("identifier %s used as value", name)
	}
	return x.constInt(0)
}

func (x *Exec) globalVar(st *State, o *types.Var) *Value {
	key := o.Name()
	if o.Pkg() != nil && o.Pkg() != x.eng.pkg.Types {
		key = o.Pkg().Name() + "." + o.Name()
	} else {
		x.guardGlobal(st, key, nil, false)
	}
	if v, ok := st.globals[key]; ok {
		return v
	}
	if v, ok := st.globals["const."+key]; ok {
		return v
	}
	if init := x.eng.immutableInit(o); init != nil && x.inlineDepth < 12 {
		// never assigned anywhere in the package: its value is its initializer
		savedSpec := x.spec
		x.spec = 0
		x.noSafety++
		x.inlineDepth++
		before := map[string]*Term{}
		for k, a := range st.heap {
			before[k] = a
		}
		iv := x.coerce(st, x.eval(st, init), o.Type())
		for k, a := range st.heap {
			if before[k] != a {
				x.initKeys[k] = true
			}
		}
		x.inlineDepth--
		x.noSafety--
		x.spec = savedSpec
		if iv.L == nil {
			iv = x.convertConst(iv, o.Type())
		}
		st.globals["const."+key] = iv
		return iv
	}
	v := &Value{T: o.Type(), L: map[string]*Term{}}
	for _, l := range x.leavesOf(o.Type()) {
		v.L[l.path] = x.b.Var(join("G0."+key, l.path), l.sort)
	}
	st.globals[key] = v
	for _, os := range x.oldStack {
		if _, ok := os.globals[key]; !ok {
			os.globals[key] = v
		}
	}
	x.assumeWellFormed(st, v)
	return v
}

// ---------- unary / binary

func (x *Exec) evalUnary(st *State, e *ast.UnaryExpr) *Value {
	switch e.Op {
	case token.AND:
		return x.evalAddrOf(st, e)
	case token.ARROW:
		x.note("channel-receive")
		t := x.typeOf(e)
		if t == nil {
			x.fail("channel receive in spec")
			return x.constInt(0)
		}
		x.eval(st, e.X)
		if tup, ok := t.(*types.Tuple); ok {
			t = tup.At(0).Type()
		}
		v := x.freshValue(t, "recv")
		x.assumeWellFormed(st, v)
		return v
	}
	v := x.eval(st, e.X)
	if v.L == nil && v.C != nil {
		return &Value{T: v.T, C: constant.UnaryOp(e.Op, v.C, 0)}
	}
	switch e.Op {
	case token.NOT:
		return scalarV(v.T, x.b.Not(v.scalar()))
	case token.SUB:
		if kindOf(v.T) == kFloat {
			return scalarV(v.T, x.b.App("f64.neg", F64Sort, v.scalar()))
		}
		if x.mode == "int" {
			x.overflowCheck(st, e, x.b.Neg(v.scalar()), v.T)
		}
		return scalarV(v.T, x.b.Neg(v.scalar()))
	case token.ADD:
		return v
	case token.XOR:
		if v.scalar().Sort.Kind != SBV {
			return scalarV(v.T, x.b.App("int.not", v.scalar().Sort, v.scalar()))
		}
		return scalarV(v.T, x.b.BVNot(v.scalar()))
	}
	x.fail("unsupported unary %s", e.Op)
	return v
}

func (x *Exec) evalAddrOf(st *State, e *ast.UnaryExpr) *Value {
	t := x.typeOf(e)
	switch inner := e.X.(type) {
	case *ast.CompositeLit:
		v := x.evalCompositeLit(st, inner)
		r := x.allocRef(st)
		if kindOf(v.T) == kStruct {
			x.storeStruct(st, r, v.T, v)
		} else {
			x.storeCell(st, r, v.T, v)
		}
		return scalarV(t, r)
	case *ast.Ident:
		obj := x.eng.info.Uses[inner]
		if obj != nil {
			if ref, ok := st.addr[obj]; ok {
				return scalarV(t, ref)
			}
			if gv, ok := obj.(*types.Var); ok && gv.Parent() == x.eng.pkg.Types.Scope() {
				// address of a package-level variable: no read of the variable itself
				ga := x.b.Var("globaladdr."+inner.Name, RefSort)
				if x.eng.isNeverAssigned(gv) && kindOf(gv.Type()) != kStruct {
					// a variable that is never assigned: the cell behind its address holds its
					// (initial) value - assuming nobody writes through such a pointer
					cell := x.loadCell(st, ga, gv.Type())
					val := x.globalVar(st, gv)
					if val.L != nil {
						for p, tm := range val.L {
							if ct, ok := cell.L[p]; ok && ct.Sort == tm.Sort {
								x.assume(st, x.b.Eq(ct, tm))
							}
						}
					}
				}
				return scalarV(t, ga)
			}
			// not yet materialised (parameter or variable defined before the
			// engine saw it): move it to the heap now
			v := x.valueOfObj(st, obj, inner.Name)
			r := x.allocRef(st)
			if kindOf(v.T) == kStruct {
				x.storeStruct(st, r, v.T, v)
			} else {
				x.storeCell(st, r, v.T, v)
			}
			st.addr[obj] = r
			delete(st.env, obj)
			return scalarV(t, r)
		}
	case *ast.SelectorExpr:
		// &p.f : pointer into a struct; modelled as an opaque ref
		x.eval(st, inner.X)
		x.note("address-of-field")
		r := x.b.Fresh("addr", RefSort)
		x.assume(st, x.b.Lt(x.b.Int(0), r, true))
		return scalarV(t, r)
	case *ast.IndexExpr:
		x.eval(st, inner.X)
		x.note("address-of-element")
		r := x.b.Fresh("addr", RefSort)
		x.assume(st, x.b.Lt(x.b.Int(0), r, true))
		return scalarV(t, r)
	}
	x.fail("unsupported address-of %s", x.eng.srcText(e))
	return x.constInt(0)
}

func (x *Exec) evalBinary(st *State, e *ast.BinaryExpr) *Value {
	rt := x.typeOf(e)
	switch e.Op {
	case token.LAND, token.LOR:
		a := x.evalCond(st, e.X)
		if e.Op == token.LAND && a.IsFalse() {
			return scalarV(types.Typ[types.Bool], a)
		}
		if e.Op == token.LOR && a.IsTrue() {
			return scalarV(types.Typ[types.Bool], a)
		}
		// evaluate RHS under guard (safety obligations and effects conditional)
		g := a
		if e.Op == token.LOR {
			g = x.b.Not(a)
		}
		var bt *Term
		if x.spec > 0 || !hasCall(e.Y) {
			x.pushGuard(st, g)
			bt = x.evalCond(st, e.Y)
			x.popGuard(st)
		} else {
			sub := st.clone()
			x.assume(sub, g)
			bt = x.evalCond(sub, e.Y)
			// merge effects back
			other := st.clone()
			x.assume(other, x.b.Not(g))
			m := x.merge2(sub, other)
			if m != nil {
				*st = *m
			}
		}
		if e.Op == token.LAND {
			return scalarV(types.Typ[types.Bool], x.b.And(a, bt))
		}
		return scalarV(types.Typ[types.Bool], x.b.Or(a, bt))
	}
	a := x.eval(st, e.X)
	c := x.eval(st, e.Y)
	return x.binary(st, e.Op, a, c, rt, e)
}

func hasCall(e ast.Expr) bool {
	found := false
	ast.Inspect(e, func(n ast.Node) bool {
		if _, ok := n.(*ast.CallExpr); ok {
			found = true
		}
		return !found
	})
	return found
}

// guards: a stack of conditions under which the current sub-expression is
// evaluated; implemented by temporarily extending the path condition.
func (x *Exec) pushGuard(st *State, g *Term) {
	x.guardMarks = append(x.guardMarks, len(st.pc))
	st.pc = append(st.pc, g)
}

func (x *Exec) popGuard(st *State) {
	m := x.guardMarks[len(x.guardMarks)-1]
	x.guardMarks = x.guardMarks[:len(x.guardMarks)-1]
	// facts assumed under the guard become implications
	g := st.pc[m]
	extra := st.pc[m+1:]
	st.pc = st.pc[:m]
	for _, f := range extra {
		st.pc = append(st.pc, x.b.Implies(g, f))
	}
}

func isUntypedConst(v *Value) bool { return v.L == nil }

func (x *Exec) binary(st *State, op token.Token, a, c *Value, rt types.Type, at ast.Node) *Value {
	// both constants: fold
	if a.L == nil && c.L == nil && a.C != nil && c.C != nil {
		switch op {
		case token.EQL, token.NEQ, token.LSS, token.LEQ, token.GTR, token.GEQ:
			return &Value{T: types.Typ[types.UntypedBool], C: constant.MakeBool(constant.Compare(a.C, op, c.C))}
		case token.SHL, token.SHR:
			n, _ := constant.Uint64Val(constant.ToInt(c.C))
			return &Value{T: a.T, C: constant.Shift(constant.ToInt(a.C), op, uint(n))}
		case token.QUO:
			if a.C.Kind() == constant.Int && c.C.Kind() == constant.Int {
				return &Value{T: a.T, C: constant.BinaryOp(a.C, token.QUO_ASSIGN, c.C)}
			}
		}
		return &Value{T: a.T, C: constant.BinaryOp(a.C, op, c.C)}
	}
	isShift := op == token.SHL || op == token.SHR
	// nil comparisons
	if op == token.EQL || op == token.NEQ {
		t := x.compareEq(st, a, c, at)
		if op == token.NEQ {
			t = x.b.Not(t)
		}
		return scalarV(types.Typ[types.Bool], t)
	}
	// unify constants to the other operand's type
	if !isShift {
		if a.L == nil {
			a = x.convertConst(a, c.T)
		} else if c.L == nil {
			c = x.convertConst(c, a.T)
		}
	} else {
		if a.L == nil {
			t := rt
			if t == nil || kindOf(t) != kInt {
				t = types.Typ[types.Int]
			}
			a = x.convertConst(a, t)
		}
		if c.L == nil {
			c = x.convertConst(c, types.Typ[types.Uint])
		}
	}
	t := a.T
	switch kindOf(t) {
	case kBool:
		x.fail("boolean operator %s on non-constants", op)
		return a
	case kString:
		switch op {
		case token.ADD:
			r := x.b.App("gostr.cat", StrSort, a.scalar(), c.scalar())
			x.assume(st, x.b.Eq(x.strLen(r), x.b.Add(x.strLen(a.scalar()), x.strLen(c.scalar()))))
			x.useStrCat = true
			return scalarV(t, r)
		case token.LSS, token.LEQ, token.GTR, token.GEQ:
			lt := func(p, q *Term) *Term { return x.b.App("gostr.lt", BoolSort, p, q) }
			var r *Term
			switch op {
			case token.LSS:
				r = lt(a.scalar(), c.scalar())
			case token.GTR:
				r = lt(c.scalar(), a.scalar())
			case token.LEQ:
				r = x.b.Not(lt(c.scalar(), a.scalar()))
			case token.GEQ:
				r = x.b.Not(lt(a.scalar(), c.scalar()))
			}
			return scalarV(types.Typ[types.Bool], r)
		}
	case kFloat:
		fa, fc := a.scalar(), c.scalar()
		switch op {
		case token.ADD, token.SUB, token.MUL, token.QUO:
			return scalarV(t, x.b.App("f64."+op.String(), F64Sort, fa, fc))
		case token.LSS:
			return scalarV(types.Typ[types.Bool], x.b.App("f64.lt", BoolSort, fa, fc))
		case token.GTR:
			return scalarV(types.Typ[types.Bool], x.b.App("f64.lt", BoolSort, fc, fa))
		case token.LEQ:
			return scalarV(types.Typ[types.Bool], x.b.App("f64.le", BoolSort, fa, fc))
		case token.GEQ:
			return scalarV(types.Typ[types.Bool], x.b.App("f64.le", BoolSort, fc, fa))
		}
	case kInt, kTime:
		return x.intBinary(st, op, a, c, at)
	case kRef:
		// ordering of references (spec only: freshness arguments)
		ra, rc := a.scalar(), c.scalar()
		bt := types.Typ[types.Bool]
		switch op {
		case token.LSS:
			return scalarV(bt, x.b.Lt(ra, rc, true))
		case token.LEQ:
			return scalarV(bt, x.b.Le(ra, rc, true))
		case token.GTR:
			return scalarV(bt, x.b.Gt(ra, rc, true))
		case token.GEQ:
			return scalarV(bt, x.b.Ge(ra, rc, true))
		}
	}
	x.fail("unsupported binary %s on %v", op, t)
	return a
}

func (x *Exec) intBinary(st *State, op token.Token, a, c *Value, at ast.Node) *Value {
	t := a.T
	_, signed := intInfo(t)
	if kindOf(t) == kTime {
		signed = true
	}
	ta, tc := a.scalar(), c.scalar()
	bt := types.Typ[types.Bool]
	isBV := ta.Sort.Kind == SBV
	if op != token.SHL && op != token.SHR && ta.Sort != tc.Sort {
		x.fail("integer operand sorts differ (%s vs %s) at %s", ta.Sort, tc.Sort, x.nodeText(at))
		return a
	}
	switch op {
	case token.ADD:
		r := x.b.Add(ta, tc)
		x.arithCheck(st, at, "add", ta, tc, r, t)
		return scalarV(t, r)
	case token.SUB:
		r := x.b.Sub(ta, tc)
		x.arithCheck(st, at, "sub", ta, tc, r, t)
		return scalarV(t, r)
	case token.MUL:
		r := x.b.Mul(ta, tc)
		x.arithCheck(st, at, "mul", ta, tc, r, t)
		return scalarV(t, r)
	case token.QUO:
		zero := x.b.Num(big.NewInt(0), tc.Sort)
		x.safety(st, "divzero", at, x.b.Neq(tc, zero))
		if signed || !isBV {
			return scalarV(t, x.b.SDiv(ta, tc))
		}
		return scalarV(t, x.b.UDiv(ta, tc))
	case token.REM:
		zero := x.b.Num(big.NewInt(0), tc.Sort)
		x.safety(st, "divzero", at, x.b.Neq(tc, zero))
		if signed || !isBV {
			return scalarV(t, x.b.SRem(ta, tc))
		}
		return scalarV(t, x.b.URem(ta, tc))
	case token.LSS:
		return scalarV(bt, x.b.Lt(ta, tc, signed))
	case token.LEQ:
		return scalarV(bt, x.b.Le(ta, tc, signed))
	case token.GTR:
		return scalarV(bt, x.b.Gt(ta, tc, signed))
	case token.GEQ:
		return scalarV(bt, x.b.Ge(ta, tc, signed))
	case token.AND, token.OR, token.XOR, token.AND_NOT:
		if !isBV {
			return scalarV(t, x.b.App("int."+op.String(), ta.Sort, ta, tc))
		}
		switch op {
		case token.AND:
			return scalarV(t, x.b.BVAnd(ta, tc))
		case token.OR:
			return scalarV(t, x.b.BVOr(ta, tc))
		case token.XOR:
			return scalarV(t, x.b.BVXor(ta, tc))
		default:
			return scalarV(t, x.b.BVAnd(ta, x.b.BVNot(tc)))
		}
	case token.SHL, token.SHR:
		if !isBV {
			x.note("shift-in-int-mode")
			return scalarV(t, x.b.App("int."+op.String(), ta.Sort, ta, tc))
		}
		_, csigned := intInfo(c.T)
		if csigned {
			zero := x.b.Num(big.NewInt(0), tc.Sort)
			x.safety(st, "negshift", at, x.b.Ge(tc, zero, true))
		}
		w := ta.Sort.Width
		cw := tc.Sort.Width
		var cnt *Term
		if cw == w {
			cnt = tc
		} else if cw < w {
			cnt = x.b.ZExt(tc, w-cw)
		} else {
			big := x.b.Ge(tc, x.b.BV(int64(w), cw), false)
			cnt = x.b.Ite(big, x.b.BV(int64(w), w), x.b.Extract(tc, w-1, 0))
		}
		if op == token.SHL {
			return scalarV(t, x.b.Shl(ta, cnt))
		}
		if signed {
			return scalarV(t, x.b.AShr(ta, cnt))
		}
		return scalarV(t, x.b.LShr(ta, cnt))
	}
	x.fail("unsupported integer op %s", op)
	return a
}

func (x *Exec) nodeText(n ast.Node) string {
	if n == nil {
		return "?"
	}
	return x.eng.srcText(n)
}

// arithCheck: in int mode every + - * gets a no-overflow obligation so that
// mathematical integers coincide with machine integers.
func (x *Exec) arithCheck(st *State, at ast.Node, what string, a, c, r *Term, t types.Type) {
	if x.mode != "int" || x.spec > 0 || x.noSafety > 0 {
		return
	}
	x.overflowCheck(st, at, r, t)
}

func (x *Exec) overflowCheck(st *State, at ast.Node, r *Term, t types.Type) {
	if x.spec > 0 || x.noSafety > 0 {
		return
	}
	w, signed := intInfo(t)
	var lo, hi *big.Int
	if signed {
		lo = new(big.Int).Neg(new(big.Int).Lsh(big.NewInt(1), uint(w-1)))
		hi = new(big.Int).Sub(new(big.Int).Lsh(big.NewInt(1), uint(w-1)), big.NewInt(1))
	} else {
		lo = big.NewInt(0)
		hi = new(big.Int).Sub(new(big.Int).Lsh(big.NewInt(1), uint(w)), big.NewInt(1))
	}
	g := x.b.And(x.b.Le(x.b.IntConst(lo), r, true), x.b.Le(r, x.b.IntConst(hi), true))
	x.safety(st, "overflow", at, g)
}

// compareEq: == on arbitrary values incl. nil
func (x *Exec) compareEq(st *State, a, c *Value, at ast.Node) *Term {
	aNil := a.L == nil && a.C == nil
	cNil := c.L == nil && c.C == nil
	if aNil && cNil {
		return x.b.True()
	}
	if aNil {
		a, c = c, a
		cNil = true
	}
	if cNil {
		switch kindOf(a.T) {
		case kRef:
			return x.b.Eq(a.scalar(), x.b.Int(0))
		case kSlice:
			return a.L["nil"]
		case kIface:
			return x.b.Eq(a.L["tag"], x.b.Int(0))
		}
		x.fail("comparison of %v with nil", a.T)
		return x.b.True()
	}
	if a.L == nil {
		a = x.convertConst(a, c.T)
	}
	if c.L == nil {
		c = x.convertConst(c, a.T)
	}
	ka, kc := kindOf(a.T), kindOf(c.T)
	if ka == kIface && kc != kIface {
		c = x.box(st, c, a.T)
	} else if kc == kIface && ka != kIface {
		a = x.box(st, a, c.T)
	}
	if kindOf(a.T) == kIface {
		// interface equality: same dynamic type and (abstractly) same boxed value
		return x.b.And(x.b.Eq(a.L["tag"], c.L["tag"]), x.b.Eq(a.L["dyn"], c.L["dyn"]))
	}
	if kindOf(a.T) == kFloat {
		return x.b.App("f64.eq", BoolSort, a.scalar(), c.scalar())
	}
	if len(a.L) != len(c.L) {
		x.fail("== on values of different shape (%v vs %v) at %s", a.T, c.T, x.nodeText(at))
		return x.b.True()
	}
	return x.eqV(a, c)
}

// ---------- conversions / coercion

// coerce adapts v for storage in a location of type t (implicit conversions:
// untyped constants, nil, concrete -> interface).
func (x *Exec) coerce(st *State, v *Value, t types.Type) *Value {
	if t == nil {
		return v
	}
	if v.L == nil {
		if v.C == nil { // nil
			return x.zeroValue(t)
		}
		if kindOf(t) == kIface {
			// default type of the constant
			dt := defaultType(v)
			return x.box(st, x.convertConst(v, dt), t)
		}
		return x.convertConst(v, t)
	}
	if kindOf(t) == kIface && kindOf(v.T) != kIface {
		return x.box(st, v, t)
	}
	if kindOf(t) == kIface {
		return &Value{T: t, L: v.L, Fn: v.Fn}
	}
	if v.T != t {
		return &Value{T: t, L: v.L, Fn: v.Fn}
	}
	return v
}

func defaultType(v *Value) types.Type {
	if v.C == nil {
		return types.Typ[types.UntypedNil]
	}
	switch v.C.Kind() {
	case constant.Bool:
		return types.Typ[types.Bool]
	case constant.String:
		return types.Typ[types.String]
	case constant.Int:
		if b, ok := v.T.(*types.Basic); ok && b.Kind() == types.UntypedRune {
			return types.Typ[types.Int32]
		}
		return types.Typ[types.Int]
	case constant.Float:
		return types.Typ[types.Float64]
	}
	return types.Typ[types.Int]
}

// box wraps a concrete value into an interface value.
func (x *Exec) box(st *State, v *Value, it types.Type) *Value {
	if v.L == nil {
		if v.C == nil {
			return x.zeroValue(it)
		}
		v = x.convertConst(v, defaultType(v))
	}
	tag := x.b.Int(int64(x.eng.typeId(v.T)))
	// canonical boxing through an injective UF per leaf set: dyn = box_T(leaves...)
	tn := sanitize(canonTypeString(v.T))
	ps := v.paths()
	var args []*Term
	for _, p := range ps {
		args = append(args, v.L[p])
	}
	var d *Term
	if len(args) == 0 {
		d = x.b.Var("box."+tn, DynSort)
	} else {
		d = x.b.App("box."+tn, DynSort, args...)
	}
	for _, p := range ps {
		u := x.b.App("unbox."+tn+"."+p, v.L[p].Sort, d)
		x.assume(st, x.b.Eq(u, v.L[p]))
	}
	out := &Value{T: it, L: map[string]*Term{"tag": tag, "dyn": d}, Fn: v.Fn}
	return out
}

func (x *Exec) hasDynType(st *State, iv *Value, t types.Type) *Term {
	if types.IsInterface(t) {
		if it, ok := t.Underlying().(*types.Interface); ok && it.NumMethods() == 0 {
			return x.b.Neq(iv.L["tag"], x.b.Int(0))
		}
		x.note("interface-to-interface-assertion")
		return x.b.And(x.b.Neq(iv.L["tag"], x.b.Int(0)), x.b.App("implements."+sanitize(types.TypeString(t, nil)), BoolSort, iv.L["tag"]))
	}
	return x.b.Eq(iv.L["tag"], x.b.Int(int64(x.eng.typeId(t))))
}

func (x *Exec) unbox(st *State, iv *Value, t types.Type) *Value {
	if types.IsInterface(t) {
		return &Value{T: t, L: iv.L}
	}
	tn := sanitize(canonTypeString(t))
	out := &Value{T: t, L: map[string]*Term{}}
	for _, l := range x.leavesOf(t) {
		out.L[l.path] = x.b.App("unbox."+tn+"."+l.path, l.sort, iv.L["dyn"])
	}
	x.assumeWellFormed(st, out)
	return out
}

func (x *Exec) evalTypeAssert(st *State, e *ast.TypeAssertExpr, commaOk bool) []*Value {
	iv := x.eval(st, e.X)
	t := x.eng.info.TypeOf(e.Type)
	if iv.L == nil || iv.L["tag"] == nil {
		x.fail("type assertion on non-interface value at %s", x.eng.srcText(e))
		return []*Value{x.zeroValue(t), scalarV(types.Typ[types.Bool], x.b.True())}
	}
	ok := x.hasDynType(st, iv, t)
	if !commaOk {
		x.safety(st, "typeassert", e, ok)
		return []*Value{x.unbox(st, iv, t)}
	}
	v := x.iteV(ok, x.unbox(st, iv, t), x.zeroValue(t))
	return []*Value{v, scalarV(types.Typ[types.Bool], ok)}
}

func (x *Exec) toIndex(st *State, v *Value) *Term {
	if v.L == nil {
		bi := constToBig(v.C)
		if bi == nil {
			bi = big.NewInt(0)
		}
		return x.b.Num(bi, x.idxSort())
	}
	t := v.scalar()
	if t.Sort == x.idxSort() {
		return t
	}
	if t.Sort.Kind == SBV {
		_, signed := intInfo(v.T)
		if signed {
			return x.b.SExt(t, 64-t.Sort.Width)
		}
		return x.b.ZExt(t, 64-t.Sort.Width)
	}
	return t
}

func (x *Exec) castIdx(i *Term, t types.Type) *Term {
	w, _ := intInfo(t)
	if i.Sort.Kind == SBV && w != i.Sort.Width {
		if w < i.Sort.Width {
			return x.b.Extract(i, w-1, 0)
		}
		return x.b.SExt(i, w-i.Sort.Width)
	}
	return i
}

func (x *Exec) checkIndex(st *State, at ast.Node, idx, n *Term) {
	zero := x.b.Num(big.NewInt(0), idx.Sort)
	x.safety(st, "index", at, x.b.And(x.b.Le(zero, idx, true), x.b.Lt(idx, n, true)))
}

func (x *Exec) checkNonNil(st *State, at ast.Node, p *Term) {
	x.safety(st, "nil", at, x.b.Neq(p, x.b.Int(0)))
}

// convert implements T(v) for non-constant v.
func (x *Exec) convert(st *State, v *Value, t types.Type, at ast.Node) *Value {
	if v.L == nil {
		if v.C == nil {
			return x.zeroValue(t)
		}
		// constant conversion e.g. string(rune) or float->int handled by go/types for program code
		if kindOf(t) == kIface {
			return x.coerce(st, v, t)
		}
		return x.convertConst(v, t)
	}
	from, to := kindOf(v.T), kindOf(t)
	switch {
	case to == kIface:
		return x.coerce(st, v, t)
	case from == kInt && to == kInt, from == kInt && to == kTime, from == kTime && to == kInt:
		fw, fs := intInfo(v.T)
		tw, _ := intInfo(t)
		tm := v.scalar()
		if tm.Sort.Kind != SBV {
			// int mode: value-preserving conversions only (checked)
			if x.spec == 0 {
				x.overflowCheck(st, at, tm, t)
			}
			return scalarV(t, tm)
		}
		if from == kTime {
			fw, fs = 64, true
		}
		if to == kTime {
			tw = 64
		}
		switch {
		case tw == fw:
			return scalarV(t, tm)
		case tw < fw:
			return scalarV(t, x.b.Extract(tm, tw-1, 0))
		case fs:
			return scalarV(t, x.b.SExt(tm, tw-fw))
		default:
			return scalarV(t, x.b.ZExt(tm, tw-fw))
		}
	case from == kString && to == kSlice:
		// []byte(s) or []rune(s)
		el := t.Underlying().(*types.Slice).Elem()
		if w, _ := intInfo(el); w == 8 {
			s := v.scalar()
			out := &Value{T: t, L: map[string]*Term{
				"arr": x.strArr(s), "off": x.b.Num(big.NewInt(0), x.idxSort()),
				"len": x.strLen(s), "cap": x.strLen(s), "nil": x.b.False()}}
			x.assume(st, x.b.Le(x.b.Num(big.NewInt(0), x.idxSort()), x.strLen(s), true))
			return out
		}
		x.note("string-to-runes")
		out := x.freshValue(t, "runes")
		x.assumeWellFormed(st, out)
		x.assume(st, x.b.Not(out.L["nil"]))
		return out
	case from == kSlice && to == kString:
		el := v.T.Underlying().(*types.Slice).Elem()
		if w, _ := intInfo(el); w == 8 {
			return scalarV(t, x.strOf(st, v))
		}
		x.note("runes-to-string")
		return x.freshValue(t, "str")
	case from == kInt && to == kString:
		x.note("int-to-string")
		return x.freshValue(t, "str")
	case from == kInt && to == kFloat:
		return scalarV(t, x.b.App("f64.fromint."+v.scalar().Sort.str, F64Sort, v.scalar()))
	case from == kFloat && to == kInt:
		w, _ := intInfo(t)
		return scalarV(t, x.b.App("f64.toint."+x.intSort(w).str, x.intSort(w), v.scalar()))
	case from == to:
		// named <-> underlying with same shape
		return &Value{T: t, L: v.L, Fn: v.Fn}
	case from == kIface:
		return &Value{T: t, L: v.L}
	}
	x.fail("unsupported conversion %v -> %v at %s", v.T, t, x.nodeText(at))
	return x.zeroValue(t)
}

// strOf: string(bytes)
func (x *Exec) strOf(st *State, v *Value) *Term {
	arr, off, ln := v.L["arr"], v.L["off"], v.L["len"]
	// string([]byte(s)) == s when the slice is the whole of str.arr(s)
	if arr.Op == "app" && arr.Name == "gostr.arr" && off.IsConst() && off.Val.Sign() == 0 {
		s := arr.Args[0]
		if ln == x.strLen(s) {
			return s
		}
	}
	x.useStrOf = true
	r := x.b.App("gostr.of", StrSort, arr, off, ln)
	x.assume(st, x.b.Eq(x.strLen(r), ln))
	return r
}

// ---------- selectors, index, slice

func (x *Exec) evalSelector(st *State, e *ast.SelectorExpr) *Value {
	if x.spec > 0 {
		return x.evalSpecSelector(st, e)
	}
	sel := x.eng.info.Selections[e]
	if sel == nil {
		// qualified identifier pkg.Name
		obj := x.eng.info.Uses[e.Sel]
		if obj == nil {
			x.fail("unresolved selector %s", x.eng.srcText(e))
			return x.constInt(0)
		}
		return x.valueOfObj(st, obj, e.Sel.Name)
	}
	switch sel.Kind() {
	case types.FieldVal:
		return x.fieldRead(st, e.X, sel, e)
	case types.MethodVal:
		// method value used as func value
		x.eval(st, e.X)
		x.note("method-value")
		return scalarV(sel.Type(), x.b.Fresh("methodval", RefSort))
	}
	x.fail("unsupported selection kind at %s", x.eng.srcText(e))
	return x.constInt(0)
}

func (x *Exec) fieldRead(st *State, recvE ast.Expr, sel *types.Selection, at ast.Node) *Value {
	recv := x.eval(st, recvE)
	return x.fieldReadV(st, recv, sel.Index(), at)
}

func (x *Exec) fieldReadV(st *State, recv *Value, path []int, at ast.Node) *Value {
	cur := recv
	for _, ix := range path {
		t := cur.T
		if p, ok := t.Underlying().(*types.Pointer); ok {
			x.checkNonNil(st, at, cur.scalar())
			stt, ok := p.Elem().Underlying().(*types.Struct)
			if !ok {
				x.fail("field of pointer to non-struct")
				return x.constInt(0)
			}
			f := stt.Field(ix)
			x.guardRead(st, p.Elem(), f.Name(), cur.scalar(), at)
			cur = x.loadField(st, cur.scalar(), p.Elem(), f.Name(), f.Type())
			continue
		}
		stt, ok := t.Underlying().(*types.Struct)
		if !ok {
			x.fail("field read on %v", t)
			return x.constInt(0)
		}
		f := stt.Field(ix)
		cur = cur.sub(f.Name(), f.Type())
	}
	return cur
}

func (x *Exec) evalIndex(st *State, e *ast.IndexExpr, commaOk bool) []*Value {
	bt := x.typeOf(e.X)
	if bt == nil {
		return []*Value{x.evalSpecIndex(st, e)}
	}
	// generic instantiation f[T]
	if tv, ok := x.eng.info.Types[e.X]; ok && !tv.IsValue() {
		x.fail("generic instantiation not supported: %s", x.eng.srcText(e))
		return []*Value{x.constInt(0)}
	}
	base := x.eval(st, e.X)
	switch u := bt.Underlying().(type) {
	case *types.Slice:
		idx := x.toIndex(st, x.eval(st, e.Index))
		x.checkIndex(st, e, idx, base.L["len"])
		v := x.selectElem(base, x.b.Add(base.L["off"], idx), u.Elem())
		x.assumeWellFormed(st, v)
		return []*Value{v}
	case *types.Array:
		idx := x.toIndex(st, x.eval(st, e.Index))
		x.checkIndex(st, e, idx, x.b.Num(big.NewInt(u.Len()), idx.Sort))
		v := x.selectElem(base, idx, u.Elem())
		x.assumeWellFormed(st, v)
		return []*Value{v}
	case *types.Basic: // string
		idx := x.toIndex(st, x.eval(st, e.Index))
		if base.L == nil {
			base = x.convertConst(base, types.Typ[types.String])
		}
		x.checkIndex(st, e, idx, x.strLen(base.scalar()))
		return []*Value{scalarV(types.Typ[types.Uint8], x.b.Select(x.strArr(base.scalar()), idx))}
	case *types.Map:
		k := x.coerce(st, x.eval(st, e.Index), u.Key())
		v := x.mapLoad(st, base, u, k)
		x.assumeWellFormed(st, v)
		if commaOk {
			return []*Value{v, scalarV(types.Typ[types.Bool], x.mapHas(st, base, u, k))}
		}
		return []*Value{v}
	case *types.Pointer:
		x.note("index-through-pointer-to-array")
		if a, ok := u.Elem().Underlying().(*types.Array); ok {
			v := x.freshValue(a.Elem(), "elem")
			return []*Value{v}
		}
	}
	x.fail("unsupported index on %v", bt)
	return []*Value{x.constInt(0)}
}

func (x *Exec) evalSlice(st *State, e *ast.SliceExpr) *Value {
	bt := x.typeOf(e.X)
	base := x.eval(st, e.X)
	is := x.idxSort()
	zero := x.b.Num(big.NewInt(0), is)
	var lo, hi, mx *Term
	lo = zero
	if e.Low != nil {
		lo = x.toIndex(st, x.eval(st, e.Low))
	}
	if bt == nil {
		bt = base.T
	}
	switch bt.Underlying().(type) {
	case *types.Slice:
		hi = base.L["len"]
		if e.High != nil {
			hi = x.toIndex(st, x.eval(st, e.High))
		}
		mx = base.L["cap"]
		if e.Max != nil {
			mx = x.toIndex(st, x.eval(st, e.Max))
			x.safety(st, "slice3", e, x.b.Le(mx, base.L["cap"], true))
		}
		// Go: 0 <= lo <= hi <= max <= cap
		x.safety(st, "slice", e, x.b.And(x.b.Le(zero, lo, true), x.b.Le(lo, hi, true), x.b.Le(hi, mx, true)))
		out := &Value{T: base.T, L: map[string]*Term{}}
		for p, t := range base.L {
			out.L[p] = t
		}
		out.L["off"] = x.b.Add(base.L["off"], lo)
		out.L["len"] = x.b.Sub(hi, lo)
		out.L["cap"] = x.b.Sub(mx, lo)
		// slicing a nil slice yields nil only for [0:0]; keep nil flag conservative
		out.L["nil"] = x.b.And(base.L["nil"])
		return out
	case *types.Basic: // string
		if base.L == nil {
			base = x.convertConst(base, types.Typ[types.String])
		}
		s := base.scalar()
		hi = x.strLen(s)
		if e.High != nil {
			hi = x.toIndex(st, x.eval(st, e.High))
		}
		x.safety(st, "slice", e, x.b.And(x.b.Le(zero, lo, true), x.b.Le(lo, hi, true), x.b.Le(hi, x.strLen(s), true)))
		x.useStrOf = true
		r := x.b.App("gostr.of", StrSort, x.strArr(s), lo, x.b.Sub(hi, lo))
		x.assume(st, x.b.Eq(x.strLen(r), x.b.Sub(hi, lo)))
		return scalarV(base.T, r)
	case *types.Array:
		x.note("slice-of-array")
		a := bt.Underlying().(*types.Array)
		n := x.b.Num(big.NewInt(a.Len()), is)
		hi = n
		if e.High != nil {
			hi = x.toIndex(st, x.eval(st, e.High))
		}
		x.safety(st, "slice", e, x.b.And(x.b.Le(zero, lo, true), x.b.Le(lo, hi, true), x.b.Le(hi, n, true)))
		out := &Value{T: types.NewSlice(a.Elem()), L: map[string]*Term{}}
		for p, t := range base.L {
			out.L[p] = t
		}
		out.L["off"], out.L["len"], out.L["cap"], out.L["nil"] = lo, x.b.Sub(hi, lo), x.b.Sub(n, lo), x.b.False()
		return out
	case *types.Pointer:
		x.note("slice-of-pointer-to-array")
	}
	x.fail("unsupported slice expression on %v", bt)
	return base
}

func (x *Exec) evalCompositeLit(st *State, e *ast.CompositeLit) *Value {
	t := x.eng.info.TypeOf(e)
	switch u := t.Underlying().(type) {
	case *types.Struct:
		v := x.zeroValue(t)
		for i, el := range e.Elts {
			var fname string
			var fe ast.Expr
			if kv, ok := el.(*ast.KeyValueExpr); ok {
				fname = kv.Key.(*ast.Ident).Name
				fe = kv.Value
			} else {
				fname = u.Field(i).Name()
				fe = el
			}
			var ft types.Type
			for j := 0; j < u.NumFields(); j++ {
				if u.Field(j).Name() == fname {
					ft = u.Field(j).Type()
				}
			}
			fv := x.coerce(st, x.eval(st, fe), ft)
			v = v.with(fname, fv)
		}
		return v
	case *types.Slice:
		is := x.idxSort()
		n := int64(len(e.Elts))
		v := x.zeroValue(t)
		v.L["nil"] = x.b.False()
		v.L["len"] = x.b.Num(big.NewInt(n), is)
		v.L["cap"] = v.L["len"]
		v.L["off"] = x.b.Num(big.NewInt(0), is)
		for i, el := range e.Elts {
			if kv, ok := el.(*ast.KeyValueExpr); ok {
				_ = kv
				x.fail("keyed slice literal not supported")
				return v
			}
			ev := x.coerce(st, x.evalLitElem(st, el, u.Elem()), u.Elem())
			v = x.storeElem(v, x.b.Num(big.NewInt(int64(i)), is), ev)
		}
		return v
	case *types.Array:
		is := x.idxSort()
		v := x.zeroValue(t)
		for i, el := range e.Elts {
			if _, ok := el.(*ast.KeyValueExpr); ok {
				x.fail("keyed array literal not supported")
				return v
			}
			ev := x.coerce(st, x.evalLitElem(st, el, u.Elem()), u.Elem())
			v = x.storeElem(v, x.b.Num(big.NewInt(int64(i)), is), ev)
		}
		return v
	case *types.Map:
		m := scalarV(t, x.allocRef(st))
		x.mapInitEmpty(st, m, u)
		for _, el := range e.Elts {
			kv := el.(*ast.KeyValueExpr)
			k := x.coerce(st, x.evalLitElem(st, kv.Key, u.Key()), u.Key())
			val := x.coerce(st, x.evalLitElem(st, kv.Value, u.Elem()), u.Elem())
			x.mapStore(st, m, u, k, val, e)
		}
		return m
	}
	x.fail("unsupported composite literal of %v", t)
	return x.zeroValue(t)
}

func (x *Exec) evalLitElem(st *State, el ast.Expr, et types.Type) *Value {
	if cl, ok := el.(*ast.CompositeLit); ok && cl.Type == nil {
		// elided type
		if p, ok := et.Underlying().(*types.Pointer); ok {
			_ = p
			v := x.evalCompositeLit(st, cl)
			r := x.allocRef(st)
			x.storeStruct(st, r, v.T, v)
			return scalarV(et, r)
		}
	}
	return x.eval(st, el)
}

// ---------- maps (by reference; dom/val arrays per map type)

func mapKeyName(u *types.Map) string {
	return "map<" + types.TypeString(u.Key(), func(*types.Package) string { return "" }) + "," + types.TypeString(u.Elem(), func(*types.Package) string { return "" }) + ">"
}

// mapKeySort is the sort map keys of type kt are indexed by: the leaf sort for a
// scalar key, an uninterpreted "packed key" sort for a struct key.
func (x *Exec) mapKeySort(kt types.Type) (*Sort, bool) {
	ls := x.leavesOf(kt)
	if len(ls) == 1 && ls[0].path == "" {
		return ls[0].sort, true
	}
	if _, ok := kt.Underlying().(*types.Struct); ok && len(ls) > 0 {
		for _, l := range ls {
			if l.sort.Kind == SArray {
				return nil, false
			}
		}
		return UnintSort("key<" + types.TypeString(kt, func(*types.Package) string { return "" }) + ">"), true
	}
	return nil, false
}

// mapKeyTerm: a struct key (comparable fields only) becomes pack(f1,...,fn) of an
// uninterpreted sort; the projections unpack_i(pack(...)) = f_i are assumed for
// every packed term, which makes pack injective on the keys that occur.
func (x *Exec) mapKeyTerm(st *State, u *types.Map, k *Value) (*Term, bool) {
	if len(k.L) == 1 {
		if t, ok := k.L[""]; ok {
			return t, true
		}
	}
	ks, ok := x.mapKeySort(u.Key())
	if !ok || ks.Kind != SUnint || st == nil {
		return nil, false
	}
	ls := x.leavesOf(u.Key())
	args := make([]*Term, 0, len(ls))
	for _, l := range ls {
		t, ok := k.L[l.path]
		if !ok || t.Sort != l.sort {
			return nil, false
		}
		args = append(args, t)
	}
	name := ks.Name
	pk := x.b.App("pack."+name, ks, args...)
	for i, l := range ls {
		x.assume(st, x.b.Eq(x.b.App("unpack."+name+"."+l.path, l.sort, pk), args[i]))
	}
	return pk, true
}

func (x *Exec) mapDom(st *State, u *types.Map, ks *Sort) *Term {
	return x.heapArr(st, mapKeyName(u)+".dom", ArraySort(ks, BoolSort))
}

func (x *Exec) mapHas(st *State, m *Value, u *types.Map, k *Value) *Term {
	kt, ok := x.mapKeyTerm(st, u, k)
	if !ok {
		x.note("map-with-composite-key")
		return x.b.Fresh("map.has", BoolSort)
	}
	dom := x.b.Select(x.mapDom(st, u, kt.Sort), m.scalar())
	return x.b.And(x.b.Neq(m.scalar(), x.b.Int(0)), x.b.Select(dom, kt))
}

func (x *Exec) mapLoad(st *State, m *Value, u *types.Map, k *Value) *Value {
	kt, ok := x.mapKeyTerm(st, u, k)
	if !ok {
		x.note("map-with-composite-key")
		return x.freshValue(u.Elem(), "mapval")
	}
	has := x.mapHas(st, m, u, k)
	v := &Value{T: u.Elem(), L: map[string]*Term{}}
	for _, l := range x.leavesOf(u.Elem()) {
		arr := x.heapArr(st, join(mapKeyName(u)+".val", l.path), ArraySort(kt.Sort, l.sort))
		v.L[l.path] = x.b.Select(x.b.Select(arr, m.scalar()), kt)
	}
	return x.iteV(has, v, x.zeroValue(u.Elem()))
}

func (x *Exec) mapStore(st *State, m *Value, u *types.Map, k, val *Value, at ast.Node) {
	// inserting a key whose dynamic type is not hashable panics
	for p, t := range k.L {
		if p == "tag" || strings.HasSuffix(p, ".tag") {
			x.useHashable = true
			x.safety(st, "hashable-key", at, x.b.App("hashable", BoolSort, t))
		}
	}
	x.safety(st, "nilmap", at, x.b.Neq(m.scalar(), x.b.Int(0)))
	x.setMapEmpty(st, m.scalar(), x.b.False())
	kt, ok := x.mapKeyTerm(st, u, k)
	if !ok {
		x.note("map-with-composite-key")
		return
	}
	dk := mapKeyName(u) + ".dom"
	domA := x.mapDom(st, u, kt.Sort)
	st.heap[dk] = x.b.Store(domA, m.scalar(), x.b.Store(x.b.Select(domA, m.scalar()), kt, x.b.True()))
	for p, t := range val.L {
		key := join(mapKeyName(u)+".val", p)
		arr := x.heapArr(st, key, ArraySort(kt.Sort, t.Sort))
		st.heap[key] = x.b.Store(arr, m.scalar(), x.b.Store(x.b.Select(arr, m.scalar()), kt, t))
	}
}

func (x *Exec) mapDelete(st *State, m *Value, u *types.Map, k *Value) {
	x.setMapEmpty(st, m.scalar(), x.b.Fresh("map.empty", BoolSort))
	kt, ok := x.mapKeyTerm(st, u, k)
	if !ok {
		return
	}
	dk := mapKeyName(u) + ".dom"
	domA := x.mapDom(st, u, kt.Sort)
	st.heap[dk] = x.b.Store(domA, m.scalar(), x.b.Store(x.b.Select(domA, m.scalar()), kt, x.b.False()))
}

func (x *Exec) mapInitEmpty(st *State, m *Value, u *types.Map) {
	x.setMapEmpty(st, m.scalar(), x.b.True())
	ks, ok := x.mapKeySort(u.Key())
	if !ok {
		return
	}
	dk := mapKeyName(u) + ".dom"
	domA := x.mapDom(st, u, ks)
	st.heap[dk] = x.b.Store(domA, m.scalar(), x.b.ConstArray(ArraySort(ks, BoolSort), x.b.False()))
}

// ---------- guarded-by discipline hooks (filled by ghost lock layer)

func (x *Exec) guardRead(st *State, structT types.Type, field string, ptr *Term, at ast.Node) {
	x.guardAccess(st, structT, field, ptr, at, false)
}
func (x *Exec) guardWrite(st *State, structT types.Type, field string, ptr *Term, at ast.Node) {
	x.guardAccess(st, structT, field, ptr, at, true)
}

func strTrimPkg(s string) string {
	if i := strings.LastIndex(s, "."); i >= 0 {
		return s[i+1:]
	}
	return s
}

// map emptiness is tracked per map reference (exact for creation and insert,
// unknown after delete)
func (x *Exec) setMapEmpty(st *State, ref *Term, v *Term) {
	arr := x.heapArr(st, "alloc.mapempty", BoolSort)
	st.heap["alloc.mapempty"] = x.b.Store(arr, ref, v)
}

func (x *Exec) mapIsEmpty(st *State, ref *Term) *Term {
	return x.b.Select(x.heapArr(st, "alloc.mapempty", BoolSort), ref)
}
