package main

import (
	"fmt"
	"go/ast"
	"go/token"
	"go/types"
	"os"
	"path/filepath"
	"regexp"
	"sort"
	"strings"
	"sync"

	"golang.org/x/tools/go/packages"
)

type Engine struct {
	calleePropsMemo map[string]map[string]bool
	repo       string
	pkg        *packages.Package
	fset       *token.FileSet
	info       *types.Info
	funcs      map[string]*ast.FuncDecl // qualified name -> decl
	fobj       map[string]*types.Func
	fileOf     map[string]string
	cf         *ContractFile
	typeIds    map[string]int
	typeIdL    []string
	specFns    map[string]bool // functions defined in zz_spec_verif.go
	srcs       map[string][]byte
	funcLoops  map[string][]ast.Stmt
	mu         sync.Mutex
	globalInit map[*types.Var]ast.Expr
	// package variables that are never assigned directly (their address may be taken)
	neverAssigned map[*types.Var]bool
	typeById   map[int]types.Type
	escaping   map[types.Object]bool
}

func qualName(fd *ast.FuncDecl) string {
	if fd.Recv == nil || len(fd.Recv.List) == 0 {
		return fd.Name.Name
	}
	t := fd.Recv.List[0].Type
	if s, ok := t.(*ast.StarExpr); ok {
		t = s.X
	}
	if id, ok := t.(*ast.Ident); ok {
		return id.Name + "." + fd.Name.Name
	}
	if ix, ok := t.(*ast.IndexExpr); ok {
		if id, ok := ix.X.(*ast.Ident); ok {
			return id.Name + "." + fd.Name.Name
		}
	}
	return fd.Name.Name
}

func funcQual(f *types.Func) string {
	sig := f.Type().(*types.Signature)
	if r := sig.Recv(); r != nil {
		t := r.Type()
		if p, ok := t.(*types.Pointer); ok {
			t = p.Elem()
		}
		if n, ok := t.(*types.Named); ok {
			if f.Pkg() != nil && n.Obj().Pkg() != nil && n.Obj().Pkg().Path() != "github.com/jimsnab/go-redisemu" {
				return n.Obj().Pkg().Path() + "." + n.Obj().Name() + "." + f.Name()
			}
			return n.Obj().Name() + "." + f.Name()
		}
		return types.TypeString(t, nil) + "." + f.Name()
	}
	if f.Pkg() != nil && f.Pkg().Path() != "github.com/jimsnab/go-redisemu" {
		return f.Pkg().Path() + "." + f.Name()
	}
	return f.Name()
}

func LoadEngine(repo string) (*Engine, error) {
	cfg := &packages.Config{
		Mode:       packages.NeedName | packages.NeedFiles | packages.NeedSyntax | packages.NeedTypes | packages.NeedTypesInfo | packages.NeedImports | packages.NeedDeps,
		Dir:        repo,
		BuildFlags: []string{"-tags=verif"},
		Env:        append(os.Environ(), "GOFLAGS=-mod=mod", "GOPROXY=off", "GOSUMDB=off", "GOTOOLCHAIN=local"),
	}
	pkgs, err := packages.Load(cfg, ".")
	if err != nil {
		return nil, err
	}
	if len(pkgs) != 1 {
		return nil, fmt.Errorf("expected 1 package, got %d", len(pkgs))
	}
	p := pkgs[0]
	if len(p.Errors) > 0 {
		var msgs []string
		for _, e := range p.Errors {
			msgs = append(msgs, e.Error())
		}
		return nil, fmt.Errorf("package errors (does /repo compile with -tags verif?):\n%s", strings.Join(msgs, "\n"))
	}
	e := &Engine{repo: repo, pkg: p, fset: p.Fset, info: p.TypesInfo,
		funcs: map[string]*ast.FuncDecl{}, fobj: map[string]*types.Func{}, fileOf: map[string]string{},
		typeIds: map[string]int{}, specFns: map[string]bool{}, srcs: map[string][]byte{}, funcLoops: map[string][]ast.Stmt{}}
	var cfiles []string
	for _, f := range p.Syntax {
		fn := p.Fset.Position(f.Pos()).Filename
		base := filepath.Base(fn)
		if strings.HasPrefix(base, "zz_contracts") && strings.HasSuffix(base, "_verif.go") {
			cfiles = append(cfiles, fn)
		}
		if src, err := os.ReadFile(fn); err == nil {
			e.srcs[fn] = src
		}
		for _, d := range f.Decls {
			fd, ok := d.(*ast.FuncDecl)
			if !ok || fd.Body == nil {
				continue
			}
			q := qualName(fd)
			e.funcs[q] = fd
			e.fileOf[q] = base
			if o, ok := p.TypesInfo.Defs[fd.Name].(*types.Func); ok {
				e.fobj[q] = o
			}
			if strings.HasPrefix(base, "zz_spec") {
				e.specFns[q] = true
			}
		}
	}
	sort.Strings(cfiles)
	e.cf, err = ParseContractFiles(cfiles)
	if err != nil {
		return nil, err
	}
	return e, nil
}

func (e *Engine) typeId(t types.Type) int {
	e.mu.Lock()
	defer e.mu.Unlock()
	k := canonTypeString(t)
	if id, ok := e.typeIds[k]; ok {
		return id
	}
	id := len(e.typeIds) + 1
	e.typeIds[k] = id
	e.typeIdL = append(e.typeIdL, k)
	if e.typeById == nil {
		e.typeById = map[int]types.Type{}
	}
	e.typeById[id] = t
	return id
}

func (e *Engine) ghostFieldsOf(structName string) []*GhostField {
	var out []*GhostField
	for _, g := range e.cf.GhostFields {
		if g.Struct == structName {
			out = append(out, g)
		}
	}
	return out
}

// typeByName resolves a type written in a contract: basic names, package
// types, *T, []T.
// strMapLen marks the ghost array type used for strmapof:T (indexed by string).
const strMapLen = 1 << 61

// refMapLen marks the ghost array type used for refmapof:T (indexed by reference).
const refMapLen = 1<<61 + 1

func (e *Engine) typeByName(s string) types.Type {
	s = strings.TrimSpace(s)
	if strings.HasPrefix(s, "*") {
		return types.NewPointer(e.typeByName(s[1:]))
	}
	if strings.HasPrefix(s, "[]") {
		return types.NewSlice(e.typeByName(s[2:]))
	}
	if strings.HasPrefix(s, "refmapof:") {
		// ghost total map keyed by object reference (value semantics)
		return types.NewArray(e.typeByName(s[9:]), refMapLen)
	}
	if strings.HasPrefix(s, "strmapof:") {
		// ghost total map keyed by string (value semantics)
		return types.NewArray(e.typeByName(s[9:]), strMapLen)
	}
	if strings.HasPrefix(s, "seqof:") {
		// ghost sequence: an unbounded array indexed by int
		return types.NewArray(e.typeByName(s[6:]), 1<<62)
	}
	switch s {
	case "ref":
		return types.Typ[types.UnsafePointer]
	case "any":
		return types.Universe.Lookup("any").Type()
	case "byte":
		return types.Typ[types.Uint8]
	case "time":
		if imp := e.findImport("time"); imp != nil {
			return imp.Scope().Lookup("Time").Type()
		}
	}
	if o := types.Universe.Lookup(s); o != nil {
		if tn, ok := o.(*types.TypeName); ok {
			return tn.Type()
		}
	}
	if o := e.pkg.Types.Scope().Lookup(s); o != nil {
		if tn, ok := o.(*types.TypeName); ok {
			return tn.Type()
		}
	}
	panic("unknown type in contract: " + s)
}

func (e *Engine) findImport(path string) *types.Package {
	for _, imp := range e.pkg.Types.Imports() {
		if imp.Path() == path {
			return imp
		}
	}
	return nil
}

func (e *Engine) srcText(n ast.Node) string {
	p1 := e.fset.Position(n.Pos())
	p2 := e.fset.Position(n.End())
	src := e.srcs[p1.Filename]
	if src == nil || p2.Offset > len(src) || p1.Offset > p2.Offset {
		return "?"
	}
	s := string(src[p1.Offset:p2.Offset])
	s = strings.Join(strings.Fields(s), " ")
	if len(s) > 60 {
		s = s[:60] + "…"
	}
	return s
}

// loopsOf lists the loops of a function in source order (ordinal 1..n).
func (e *Engine) loopsOf(q string) []ast.Stmt {
	e.mu.Lock()
	defer e.mu.Unlock()
	if l, ok := e.funcLoops[q]; ok {
		return l
	}
	var loops []ast.Stmt
	fd := e.funcs[q]
	if fd != nil {
		ast.Inspect(fd.Body, func(n ast.Node) bool {
			switch n.(type) {
			case *ast.ForStmt, *ast.RangeStmt:
				loops = append(loops, n.(ast.Stmt))
			}
			return true
		})
	}
	e.funcLoops[q] = loops
	return loops
}

// immutableInit returns the initializer expression of a package-level
// variable of this package that is never assigned or address-taken.
func (e *Engine) immutableInit(o *types.Var) ast.Expr {
	e.mu.Lock()
	defer e.mu.Unlock()
	if e.globalInit == nil {
		e.globalInit = map[*types.Var]ast.Expr{}
		mutated := map[types.Object]bool{}
		direct := map[types.Object]bool{}
		inAddr := false
		e.neverAssigned = map[*types.Var]bool{}
		for _, f := range e.pkg.Syntax {
			ast.Inspect(f, func(n ast.Node) bool {
				mark := func(x ast.Expr) {
					for {
						switch v := x.(type) {
						case *ast.ParenExpr:
							x = v.X
							continue
						case *ast.IndexExpr:
							x = v.X
							continue
						case *ast.SelectorExpr:
							x = v.X
							continue
						case *ast.StarExpr:
							x = v.X
							continue
						case *ast.Ident:
							if ob := e.info.Uses[v]; ob != nil {
								mutated[ob] = true
								if !inAddr {
									direct[ob] = true
								}
							}
						}
						return
					}
				}
				switch s := n.(type) {
				case *ast.AssignStmt:
					for _, l := range s.Lhs {
						mark(l)
					}
				case *ast.IncDecStmt:
					mark(s.X)
				case *ast.UnaryExpr:
					if s.Op == token.AND {
						inAddr = true
						mark(s.X)
						inAddr = false
					}
				case *ast.CallExpr:
					// method calls with pointer receivers on globals (mutex.Lock) and delete()
					if sel, ok := s.Fun.(*ast.SelectorExpr); ok {
						if se := e.info.Selections[sel]; se != nil && se.Kind() == types.MethodVal {
							if _, isPtr := se.Obj().Type().(*types.Signature).Recv().Type().(*types.Pointer); isPtr {
								mark(sel.X)
							}
						}
					}
					if id, ok := s.Fun.(*ast.Ident); ok && id.Name == "delete" && len(s.Args) > 0 {
						mark(s.Args[0])
					}
				}
				return true
			})
		}
		for _, f := range e.pkg.Syntax {
			for _, d := range f.Decls {
				gd, ok := d.(*ast.GenDecl)
				if !ok || gd.Tok != token.VAR {
					continue
				}
				for _, sp := range gd.Specs {
					vs := sp.(*ast.ValueSpec)
					if len(vs.Values) != len(vs.Names) {
						continue
					}
					for i, n := range vs.Names {
						if ob, ok := e.info.Defs[n].(*types.Var); ok && !mutated[ob] {
							e.globalInit[ob] = vs.Values[i]
						}
						if ob, ok := e.info.Defs[n].(*types.Var); ok && !direct[ob] {
							e.neverAssigned[ob] = true
						}
					}
				}
			}
		}
	}
	return e.globalInit[o]
}

func (e *Engine) isNeverAssigned(o *types.Var) bool {
	e.immutableInit(o)
	e.mu.Lock()
	defer e.mu.Unlock()
	return e.neverAssigned[o]
}

var reByte = regexp.MustCompile(`\bbyte\b`)
var reRune = regexp.MustCompile(`\brune\b`)

// canonTypeString: type identity up to the predeclared aliases byte/rune.
func canonTypeString(t types.Type) string {
	k := types.TypeString(t, nil)
	k = reByte.ReplaceAllString(k, "uint8")
	k = reRune.ReplaceAllString(k, "int32")
	k = strings.ReplaceAll(k, "interface{}", "any")
	return k
}

// fieldWriters lists the functions that write (assign, inc/dec, atomic op on,
// or take the address of) the struct field "Struct.field".
// calleeProps: the properties named by what the contracts of the functions
// called in q's body demand of their callers (tagged preconditions, caller
// whitelists, callback contracts). A check of such a property must look at q
// even when no clause of q's own contract carries the tag.
func (e *Engine) calleeProps(q string) map[string]bool {
	if e.calleePropsMemo == nil {
		e.calleePropsMemo = map[string]map[string]bool{}
	}
	if m, ok := e.calleePropsMemo[q]; ok {
		return m
	}
	m := map[string]bool{}
	e.calleePropsMemo[q] = m
	fd := e.funcs[q]
	if fd == nil || fd.Body == nil {
		return m
	}
	ast.Inspect(fd.Body, func(n ast.Node) bool {
		call, ok := n.(*ast.CallExpr)
		if !ok {
			return true
		}
		var id *ast.Ident
		switch f := call.Fun.(type) {
		case *ast.Ident:
			id = f
		case *ast.SelectorExpr:
			id = f.Sel
		}
		if id == nil {
			return true
		}
		fn, ok := e.info.Uses[id].(*types.Func)
		if !ok {
			return true
		}
		c := e.cf.Contracts[funcQual(fn)]
		if c == nil {
			return true
		}
		for _, r := range c.Requires {
			if !r.Free {
				for _, p := range r.Props {
					m[p] = true
				}
			}
		}
		for _, p := range c.CallersProps {
			m[p] = true
		}
		for _, cb := range c.Callbacks {
			for _, p := range cb.Props {
				m[p] = true
			}
		}
		return true
	})
	return m
}

// callersOf: the functions (qualified names, with or without a contract) whose
// bodies contain a call of the function q.
func (e *Engine) callersOf(q string) []string {
	var out []string
	for name, fd := range e.funcs {
		if e.specFns[name] || fd.Body == nil {
			continue
		}
		calls := false
		ast.Inspect(fd.Body, func(n ast.Node) bool {
			call, ok := n.(*ast.CallExpr)
			if !ok || calls {
				return !calls
			}
			var id *ast.Ident
			switch f := call.Fun.(type) {
			case *ast.Ident:
				id = f
			case *ast.SelectorExpr:
				id = f.Sel
			}
			if id != nil {
				if fn, ok := e.info.Uses[id].(*types.Func); ok && funcQual(fn) == q {
					calls = true
				}
			}
			return !calls
		})
		// a method value passed as an argument (dsc.lpush as a callback) counts as a use too
		if !calls {
			ast.Inspect(fd.Body, func(n ast.Node) bool {
				if sel, ok := n.(*ast.SelectorExpr); ok {
					if fn, ok := e.info.Uses[sel.Sel].(*types.Func); ok && funcQual(fn) == q {
						calls = true
					}
				}
				return !calls
			})
		}
		if calls {
			out = append(out, name)
		}
	}
	sort.Strings(out)
	return out
}

// globalUsers: the functions (qualified names) that mention the package-level
// variable name.
func (e *Engine) globalUsers(name string) []string {
	obj := e.pkg.Types.Scope().Lookup(name)
	if obj == nil {
		return nil
	}
	var out []string
	for q, fd := range e.funcs {
		if e.specFns[q] || fd.Body == nil {
			continue
		}
		uses := false
		ast.Inspect(fd.Body, func(n ast.Node) bool {
			if id, ok := n.(*ast.Ident); ok && e.info.Uses[id] == obj {
				uses = true
			}
			return !uses
		})
		if uses {
			out = append(out, q)
		}
	}
	sort.Strings(out)
	return out
}

func (e *Engine) fieldWriters(key string) []string {
	sn, fn, ok := strings.Cut(key, ".")
	if !ok {
		return nil
	}
	seen := map[string]bool{}
	matchSel := func(x ast.Expr) bool {
		for {
			if p, ok := x.(*ast.ParenExpr); ok {
				x = p.X
				continue
			}
			break
		}
		sel, ok := x.(*ast.SelectorExpr)
		if !ok || sel.Sel.Name != fn {
			return false
		}
		s := e.info.Selections[sel]
		if s == nil || s.Kind() != types.FieldVal {
			return false
		}
		t := s.Recv()
		if p, ok := t.Underlying().(*types.Pointer); ok {
			t = p.Elem()
		}
		if n, ok := t.(*types.Named); ok {
			return n.Obj().Name() == sn
		}
		return false
	}
	for q, fd := range e.funcs {
		if e.specFns[q] {
			continue
		}
		ast.Inspect(fd.Body, func(n ast.Node) bool {
			switch s := n.(type) {
			case *ast.AssignStmt:
				for _, l := range s.Lhs {
					if matchSel(l) {
						seen[q] = true
					}
				}
			case *ast.IncDecStmt:
				if matchSel(s.X) {
					seen[q] = true
				}
			case *ast.UnaryExpr:
				if s.Op == token.AND && matchSel(s.X) {
					seen[q] = true
				}
			case *ast.CompositeLit:
				// construction sites are not writes to an existing object
			}
			return true
		})
	}
	var out []string
	for q := range seen {
		out = append(out, q)
	}
	sort.Strings(out)
	return out
}

// escapingLocals: local variables whose address is taken somewhere in the
// package (&x): they live in the heap from their declaration on.
func (e *Engine) escapingLocals() map[types.Object]bool {
	e.mu.Lock()
	defer e.mu.Unlock()
	if e.escaping != nil {
		return e.escaping
	}
	e.escaping = map[types.Object]bool{}
	for _, f := range e.pkg.Syntax {
		ast.Inspect(f, func(n ast.Node) bool {
			if u, ok := n.(*ast.UnaryExpr); ok && u.Op == token.AND {
				x := u.X
				for {
					if p, ok := x.(*ast.ParenExpr); ok {
						x = p.X
						continue
					}
					break
				}
				if id, ok := x.(*ast.Ident); ok {
					if v, ok := e.info.Uses[id].(*types.Var); ok && v.Parent() != e.pkg.Types.Scope() && !v.IsField() {
						e.escaping[v] = true
					}
				}
			}
			return true
		})
	}
	return e.escaping
}
