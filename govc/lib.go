package main

// Models of library functions. Everything not listed is havoc'd by callStatic.

import (
	"fmt"
	"go/ast"
	"go/token"
	"go/types"
	"math/big"
	"strconv"
	"strings"
)

func (x *Exec) libCall(st *State, q string, recv *Value, args []*Value, sig *types.Signature, at *ast.CallExpr) ([]*Value, bool) {
	boolT := types.Typ[types.Bool]
	intT := types.Typ[types.Int]
	is := x.idxSort()
	res := func(i int) types.Type { return sig.Results().At(i).Type() }
	switch {
	case strings.HasPrefix(q, "github.com/jimsnab/go-lane."):
		// logging: effect-free on emulator state
		return x.freshResults(st, sig, "lane"), true
	case q == "context.Background" || q == "context.TODO":
		return x.freshResults(st, sig, "ctx"), true
	case q == "time.Sleep":
		// no effect on program state
		return nil, true
	case q == "error.Error":
		// message text of an error value: effect-free
		r := x.b.Fresh("errtext", StrSort)
		x.assume(st, x.b.Le(x.b.Num(big.NewInt(0), is), x.strLen(r), true))
		return []*Value{scalarV(res(0), r)}, true
	case q == "fmt.Errorf" || q == "errors.New":
		// a non-nil error value
		ev := x.freshValue(res(0), "err")
		x.assume(st, x.b.Lt(x.b.Int(0), ev.L["tag"], true))
		return []*Value{ev}, true
	case q == "encoding/gob.Decoder.Decode" || q == "encoding/json.Unmarshal":
		// the pointee of the (last) argument is overwritten with an arbitrary
		// well-formed value of its type; ghost bookkeeping comes from the
		// contract of the function, if any (so: fall through)
		if at != nil && len(at.Args) > 0 {
			ae := at.Args[len(at.Args)-1]
			if p, ok := x.eng.info.TypeOf(ae).Underlying().(*types.Pointer); ok {
				x.noSafety++
				ref := x.eval(st, ae).scalar()
				x.noSafety--
				nv := x.freshValue(p.Elem(), "decoded")
				x.assumeWellFormed(st, nv)
				if _, isS := p.Elem().Underlying().(*types.Struct); isS {
					x.storeStruct(st, ref, p.Elem(), nv)
				} else {
					x.storeCell(st, ref, p.Elem(), nv)
				}
			} else {
				x.havocHeap(st, "call "+q+" (non-pointer target)", nil)
			}
		}
		return nil, false
	case q == "math/bits.OnesCount8" || q == "math/bits.OnesCount64" || q == "math/bits.OnesCount32" || q == "math/bits.OnesCount":
		v := args[0].scalar()
		if v.Sort.Kind != SBV {
			r := x.b.App("bits.onescount", is, v)
			wmax := int64(64)
			switch q {
			case "math/bits.OnesCount8":
				wmax = 8
			case "math/bits.OnesCount32":
				wmax = 32
			}
			x.assume(st, x.b.And(x.b.Le(x.b.Num(big.NewInt(0), is), r, true), x.b.Le(r, x.b.Num(big.NewInt(wmax), is), true)))
			return []*Value{scalarV(intT, r)}, true
		}
		w := v.Sort.Width
		sum := x.b.BV(0, 64)
		for i := 0; i < w; i++ {
			sum = x.b.Add(sum, x.b.ZExt(x.b.Extract(v, i, i), 63))
		}
		return []*Value{scalarV(intT, sum)}, true
	case q == "math/bits.Reverse32" || q == "math/bits.Reverse8" || q == "math/bits.Reverse64" || q == "math/bits.Reverse16":
		v := args[0].scalar()
		if v.Sort.Kind != SBV {
			return []*Value{scalarV(res(0), x.b.App("bits.reverse", v.Sort, v))}, true
		}
		w := v.Sort.Width
		r := x.b.Extract(v, 0, 0)
		for i := 1; i < w; i++ {
			r = x.b.Concat(r, x.b.Extract(v, i, i))
		}
		return []*Value{scalarV(res(0), r)}, true
	case q == "math/bits.RotateLeft64":
		v := args[0].scalar()
		k := args[1].scalar()
		if v.Sort.Kind == SBV && k.IsConst() {
			n := int(new(big.Int).Mod(k.SVal(), big.NewInt(64)).Int64())
			if n == 0 {
				return []*Value{scalarV(res(0), v)}, true
			}
			return []*Value{scalarV(res(0), x.b.Concat(x.b.Extract(v, 63-n, 0), x.b.Extract(v, 63, 64-n)))}, true
		}
		return []*Value{scalarV(res(0), x.b.App("bits.rotl64", v.Sort, v, k))}, true
	case q == "math/bits.Len" || q == "math/bits.Len32" || q == "math/bits.Len64" || q == "math/bits.TrailingZeros32" || q == "math/bits.TrailingZeros64" || q == "math/bits.TrailingZeros" || q == "math/bits.LeadingZeros32":
		v := args[0].scalar()
		r := x.b.App(sanitize(q), is, v)
		w := int64(64)
		if v.Sort.Kind == SBV {
			w = int64(v.Sort.Width)
		}
		x.assume(st, x.b.And(x.b.Le(x.b.Num(big.NewInt(0), is), r, true), x.b.Le(r, x.b.Num(big.NewInt(w), is), true)))
		return []*Value{scalarV(intT, r)}, true
	case q == "strconv.ParseInt":
		// (v, err): err == nil <=> parseOK(s); v = parseVal(s) when ok, else unspecified
		s := args[0].scalar()
		ok := x.b.App("uf.parseIntOK", BoolSort, s)
		val := x.b.App("uf.parseIntVal", x.intSort(64), s)
		errV := x.freshValue(res(1), "err")
		x.assume(st, x.b.Eq(x.b.Eq(errV.L["tag"], x.b.Int(0)), ok))
		x.assume(st, x.b.Le(x.b.Int(0), errV.L["tag"], true))
		rv := x.b.Fresh("parsed", x.intSort(64))
		x.assume(st, x.b.Implies(ok, x.b.Eq(rv, val)))
		if len(args) == 3 && args[2].L != nil && args[2].scalar().IsConst() {
			// a successful parse fits the requested bit size
			if bs := args[2].scalar().SVal().Int64(); bs >= 1 && bs <= 63 {
				okb := x.b.App("uf.parseIntFits"+strconv.Itoa(int(bs)), BoolSort, s)
				x.assume(st, x.b.Implies(x.b.Eq(errV.L["tag"], x.b.Int(0)), okb))
				lim := new(big.Int).Lsh(big.NewInt(1), uint(bs-1))
				x.assume(st, x.b.Implies(okb, x.b.And(
					x.b.Le(x.b.Num(new(big.Int).Neg(lim), x.intSort(64)), rv, true),
					x.b.Lt(rv, x.b.Num(lim, x.intSort(64)), true))))
			}
		}
		return []*Value{scalarV(res(0), rv), errV}, true
	case q == "strconv.Atoi":
		s := args[0].scalar()
		ok := x.b.App("uf.atoiOK", BoolSort, s)
		val := x.b.App("uf.atoiVal", x.intSort(64), s)
		errV := x.freshValue(res(1), "err")
		x.assume(st, x.b.Eq(x.b.Eq(errV.L["tag"], x.b.Int(0)), ok))
		x.assume(st, x.b.Le(x.b.Int(0), errV.L["tag"], true))
		rv := x.b.Fresh("parsed", x.intSort(64))
		x.assume(st, x.b.Implies(ok, x.b.Eq(rv, val)))
		return []*Value{scalarV(res(0), rv), errV}, true
	case q == "fmt.Sprintf" || q == "fmt.Sprint" || q == "strconv.Itoa" || q == "strconv.FormatInt" || q == "strconv.FormatFloat" || q == "strconv.Quote" || q == "strings.ToLower" || q == "strings.ToUpper" || q == "strings.TrimSpace" || q == "strings.Join" || q == "strings.Repeat" || q == "strings.ReplaceAll" || q == "strings.TrimPrefix" || q == "strings.TrimSuffix" || q == "strings.Trim" || q == "strings.TrimRight" || q == "strings.TrimLeft":
		// deterministic function of the argument terms
		var targs []*Term
		for _, a := range args {
			if a.L == nil {
				continue
			}
			for _, p := range a.paths() {
				targs = append(targs, a.L[p])
			}
		}
		name := sanitize("lib." + q)
		// arity-specific name: variadic calls differ in shape
		for _, t := range targs {
			name += "_" + sortTag(t.Sort)
		}
		r := x.b.App(name, StrSort, targs...)
		x.assume(st, x.b.Le(x.b.Num(big.NewInt(0), is), x.strLen(r), true))
		if q == "strings.ToLower" || q == "strings.ToUpper" {
			// length-preserving on ASCII (assumption listed in DESIGN §5)
		}
		return []*Value{scalarV(res(0), r)}, true
	case q == "strings.EqualFold" || q == "strings.HasPrefix" || q == "strings.HasSuffix" || q == "strings.Contains" || q == "strings.ContainsAny" || q == "strings.ContainsRune":
		r := x.b.App(sanitize("lib."+q), BoolSort, args[0].scalar(), args[1].scalar())
		if (q == "strings.HasPrefix" || q == "strings.HasSuffix" || q == "strings.Contains") && args[0].scalar().Sort == StrSort && args[1].scalar().Sort == StrSort {
			// a string that has p as a part is at least as long as p
			x.assume(st, x.b.Implies(r, x.b.Le(x.strLen(args[1].scalar()), x.strLen(args[0].scalar()), true)))
		}
		return []*Value{scalarV(boolT, r)}, true
	case q == "time.Now":
		now := x.b.Fresh("now", x.intSort(64))
		if last, ok := st.globals["ghost.now"]; ok {
			x.assume(st, x.b.Le(last.scalar(), now, true))
		}
		st.globals["ghost.now"] = scalarV(res(0), now)
		x.assumeTimeRange(st, now)
		return []*Value{scalarV(res(0), now)}, true
	case q == "time.Time.After":
		return []*Value{scalarV(boolT, x.b.Gt(recv.scalar(), args[0].scalar(), true))}, true
	case q == "time.Time.Before":
		return []*Value{scalarV(boolT, x.b.Lt(recv.scalar(), args[0].scalar(), true))}, true
	case q == "time.Time.Equal":
		return []*Value{scalarV(boolT, x.b.Eq(recv.scalar(), args[0].scalar()))}, true
	case q == "time.Time.Add":
		// time.Time.Add saturates internally; modelled as exact addition with
		// result unspecified on overflow
		a, d := recv.scalar(), args[0].scalar()
		r := x.b.Fresh("tadd", a.Sort)
		if a.Sort.Kind == SBV {
			wa := x.b.SExt(a, 1)
			wd := x.b.SExt(d, 1)
			s := x.b.Add(wa, wd)
			fits := x.b.Eq(x.b.SExt(x.b.Extract(s, 63, 0), 1), s)
			x.assume(st, x.b.Implies(fits, x.b.Eq(r, x.b.Extract(s, 63, 0))))
		} else {
			x.assume(st, x.b.Eq(r, x.b.Add(a, d)))
		}
		return []*Value{scalarV(res(0), r)}, true
	case q == "time.Time.Sub":
		return []*Value{scalarV(res(0), x.b.Sub(recv.scalar(), args[0].scalar()))}, true
	case q == "time.Time.UnixNano":
		return []*Value{scalarV(res(0), recv.scalar())}, true
	case q == "time.Time.UnixMilli":
		return []*Value{scalarV(res(0), x.b.SDiv(recv.scalar(), x.b.Num(big.NewInt(1000000), recv.scalar().Sort)))}, true
	case q == "time.Time.Unix":
		return []*Value{scalarV(res(0), x.b.SDiv(recv.scalar(), x.b.Num(big.NewInt(1000000000), recv.scalar().Sort)))}, true
	case q == "time.Unix" || q == "time.UnixMilli":
		// times are nanoseconds since the epoch: Unix(sec, nsec) = sec*1e9 + nsec and
		// UnixMilli(ms) = ms*1e6 when that fits 64 bits, unspecified otherwise
		r := x.b.Fresh("tunix", x.intSort(64))
		a := args[0].scalar()
		if a.Sort.Kind == SBV && a.Sort.Width == 64 {
			mul := int64(1000000000)
			if q == "time.UnixMilli" {
				mul = 1000000
			}
			w := x.b.Mul(x.b.SExt(a, 64), x.b.Num(big.NewInt(mul), x.intSort(128)))
			if q == "time.Unix" && len(args) > 1 {
				w = x.b.Add(w, x.b.SExt(args[1].scalar(), 64))
			}
			fits := x.b.Eq(x.b.SExt(x.b.Extract(w, 63, 0), 64), w)
			x.assume(st, x.b.Implies(fits, x.b.Eq(r, x.b.Extract(w, 63, 0))))
		} else if a.Sort.Kind != SBV {
			mul := int64(1000000000)
			if q == "time.UnixMilli" {
				mul = 1000000
			}
			v := x.b.Mul(a, x.b.Num(big.NewInt(mul), a.Sort))
			if q == "time.Unix" && len(args) > 1 {
				v = x.b.Add(v, args[1].scalar())
			}
			x.assume(st, x.b.Eq(r, v))
		}
		return []*Value{scalarV(res(0), r)}, true
	case q == "time.Time.Nanosecond":
		// the part of the time below one second (times are non-negative here)
		t := recv.scalar()
		r := x.b.Fresh("tnsec", is)
		bn := x.b.Num(big.NewInt(1000000000), is)
		x.assume(st, x.b.And(x.b.Le(x.b.Num(big.NewInt(0), is), r, true), x.b.Lt(r, bn, true)))
		if t.Sort == is {
			x.assume(st, x.b.Implies(x.b.Le(x.b.Num(big.NewInt(0), is), t, true), x.b.Eq(r, x.b.SRem(t, bn))))
		}
		return []*Value{scalarV(intT, r)}, true
	case q == "time.Time.IsZero":
		return []*Value{scalarV(boolT, x.b.App("time.iszero", BoolSort, recv.scalar()))}, true
	case q == "math/rand.Intn" || q == "math/rand.Int63n" || q == "math/rand.Int31n":
		n := args[0].scalar()
		zero := x.b.Num(big.NewInt(0), n.Sort)
		x.safety(st, "randn", at, x.b.Gt(n, zero, true))
		r := x.b.Fresh("rand", n.Sort)
		x.assume(st, x.b.And(x.b.Le(zero, r, true), x.b.Lt(r, n, true)))
		return []*Value{scalarV(res(0), r)}, true
	case q == "sync.Mutex.Lock" || q == "sync.Mutex.Unlock" || q == "sync.RWMutex.Lock" || q == "sync.RWMutex.Unlock" || q == "sync.RWMutex.RLock" || q == "sync.RWMutex.RUnlock":
		x.mutexOp(st, recv, strings.HasSuffix(q, "Lock") && !strings.HasSuffix(q, "Unlock"), at)
		return nil, true
	case strings.HasPrefix(q, "sync/atomic."):
		// atomics on a struct field (&p.f): sequentially consistent read/write of
		// that field in this thread's view
		if len(at.Args) > 0 {
			if ue, ok := unparen(at.Args[0]).(*ast.UnaryExpr); ok && ue.Op == token.AND {
				if sel, ok := unparen(ue.X).(*ast.SelectorExpr); ok && x.eng.info.Selections[sel] != nil {
					name := q[len("sync/atomic."):]
					switch {
					case strings.HasPrefix(name, "Load"):
						return []*Value{x.eval(st, sel)}, true
					case strings.HasPrefix(name, "Store"):
						x.assignTo(st, sel, args[1])
						return nil, true
					case strings.HasPrefix(name, "CompareAndSwap"):
						cur := x.eval(st, sel)
						eq := x.compareEq(st, cur, args[1], at)
						nv := x.iteV(eq, x.coerce(st, args[2], cur.T), cur)
						x.assignTo(st, sel, nv)
						return []*Value{scalarV(types.Typ[types.Bool], eq)}, true
					case strings.HasPrefix(name, "Swap"):
						cur := x.eval(st, sel)
						x.assignTo(st, sel, x.coerce(st, args[1], cur.T))
						return []*Value{cur}, true
					case strings.HasPrefix(name, "Add"):
						cur := x.eval(st, sel)
						nv := x.binary(st, token.ADD, cur, args[1], cur.T, at)
						x.assignTo(st, sel, nv)
						return []*Value{nv}, true
					}
				}
			}
		}
		x.note("atomic-op:" + q)
		return x.freshResults(st, sig, "atomic"), true
	case q == "bytes.Equal":
		return []*Value{scalarV(boolT, x.b.Fresh("bytes.equal", BoolSort))}, true
	case q == "encoding/binary.bigEndian.Uint32" || q == "encoding/binary.bigEndian.Uint64" || q == "encoding/binary.bigEndian.PutUint32" || q == "encoding/binary.bigEndian.PutUint64":
		// reads/writes need len >= 4/8
		n := int64(4)
		if strings.HasSuffix(q, "64") {
			n = 8
		}
		x.safety(st, "index", at, x.b.Le(x.b.Num(big.NewInt(n), is), args[0].L["len"], true))
		if strings.Contains(q, "Put") {
			x.note("binary.Put-contents-abstracted")
			return nil, true
		}
		return x.freshResults(st, sig, "be"), true
	}
	return nil, false
}

func sortTag(s *Sort) string {
	switch s.Kind {
	case SBool:
		return "b"
	case SBV:
		return "v" + itoa(s.Width)
	case SInt:
		return "i"
	case SArray:
		return "a"
	}
	return s.Name
}

func itoa(n int) string { return big.NewInt(int64(n)).String() }

// time values are int64 nanoseconds; keep them in a range where the
// repository's own arithmetic (deadline comparisons) cannot wrap.
func (x *Exec) assumeTimeRange(st *State, t *Term) {
	lo := x.b.Num(big.NewInt(0), t.Sort)
	hi := x.b.Num(new(big.Int).Lsh(big.NewInt(1), 62), t.Sort)
	x.assume(st, x.b.And(x.b.Le(lo, t, true), x.b.Lt(t, hi, true)))
}

// mutexArr: the ghost lock state of mutexes other than the store lock, indexed
// by the mutex's address; all free when the function under verification starts
// (callers do not hold them).
func (x *Exec) mutexArr(st *State) *Term {
	key := "ghost.mutexHeld"
	if _, seen := st.heap[key]; !seen {
		arr0 := x.heapArr(st, key, BoolSort)
		// a function whose own precondition speaks about mutexes (mutexheld(...)) states
		// what it needs itself; for every other function the callers hold none
		own := x.contract != nil && x.contract.MutexUnknown
		if x.contract != nil {
			for _, r := range x.contract.Requires {
				if strings.Contains(r.Src, "mutexheld(") {
					own = true
				}
			}
		}
		if !own {
			x.assume(st, x.b.Forall([]*Term{x.b.Var("q!mx", RefSort)}, x.b.Not(x.b.Select(arr0, x.b.Var("q!mx", RefSort)))))
		}
	}
	return x.heapArr(st, key, BoolSort)
}

// guardGlobal: a package-level variable declared "guarded global.NAME by mutex M"
// (or "by atomic") is read or written by plain code.
func (x *Exec) guardGlobal(st *State, name string, at ast.Node, write bool) {
	if x.noGuard > 0 || x.spec > 0 || x.noSafety > 0 || len(x.frames) == 0 {
		return
	}
	c := x.eng.cf.Contracts[x.frame().qual]
	if c == nil {
		c = x.contract
	}
	if c == nil || !c.GuardsOn {
		return
	}
	for _, g := range x.eng.cf.Guards {
		if g.Pattern != "global."+name {
			continue
		}
		kind := "read"
		if write {
			kind = "write"
		}
		var pos token.Pos
		if at != nil {
			pos = at.Pos()
		}
		var goal *Term
		switch {
		case g.Atomic:
			goal = x.b.False()
		case g.Mutex != "":
			goal = x.b.Select(x.mutexArr(st), x.b.Var("globaladdr."+g.Mutex, RefSort))
		default:
			goal = x.ghostGlobal(st, g.Ghost, x.eng.cf.Ghosts[g.Ghost]).scalar()
		}
		x.guardCount++
		x.oblige(st, "guard", fmt.Sprintf("guard.%s(global.%s)", kind, name), goal, pos, []string{"C16"})
	}
}

// mutexOp: ghost lock state for sync.Mutex values addressed through a struct
// field; keyed by the address term of the mutex (receiver ref).
func (x *Exec) mutexOp(st *State, recv *Value, lock bool, at *ast.CallExpr) {
	if recv == nil || recv.L == nil {
		return
	}
	ref, ok := recv.L[""]
	if !ok {
		return
	}
	if ref.Op == "app" && ref.Name == "fieldaddr.dataStore.mu" {
		if gt, ok := x.eng.cf.Ghosts["held"]; ok {
			cur := x.ghostGlobal(st, "held", gt)
			if lock {
				x.safety(st, "relock", at, x.b.Not(cur.scalar()))
			} else {
				x.safety(st, "unlock-unheld", at, cur.scalar())
			}
			x.setGhostGlobal(st, "held", scalarV(cur.T, x.b.Bool(lock)))
			return
		}
	}
	key := "ghost.mutexHeld"
	arr := x.mutexArr(st)
	held := x.b.Select(arr, ref)
	if lock {
		// self-deadlock if already held by this goroutine
		x.safety(st, "relock", at, x.b.Not(held))
		st.heap[key] = x.b.Store(arr, ref, x.b.True())
	} else {
		x.safety(st, "unlock-unheld", at, held)
		st.heap[key] = x.b.Store(arr, ref, x.b.False())
	}
}
