package main

// Evaluation of contract expressions ("spec mode"): no go/types info, names
// resolved through the contract scope, then the Go scope at x.specPos.

import (
	"fmt"
	"go/ast"
	"go/token"
	"go/types"
	"math/big"
	"strings"
)

func (x *Exec) evalClause(st *State, cl *Clause, pos token.Pos) *Term {
	return x.evalClauseIn(st, cl, pos, "")
}

func (x *Exec) evalClauseIn(st *State, cl *Clause, pos token.Pos, q string) *Term {
	x.spec++
	savedPos := x.specPos
	x.specPos = pos
	defer func() { x.spec--; x.specPos = savedPos }()
	var bound []*Term
	var savedNames map[string]*Value
	if len(cl.QVars) > 0 {
		savedNames = st.names
		st.names = map[string]*Value{}
		for k, v := range savedNames {
			st.names[k] = v
		}
		for _, qv := range cl.QVars {
			t := x.eng.typeByName(qv.Type)
			v := &Value{T: t, L: map[string]*Term{}}
			for _, l := range x.leavesOf(t) {
				var bv *Term
				if x.skolem {
					bv = x.b.Fresh(join("sk!"+qv.Name, l.path), l.sort)
				} else {
					bv = x.b.Var(join("q!"+qv.Name, l.path), l.sort)
				}
				v.L[l.path] = bv
				bound = append(bound, bv)
			}
			st.names[qv.Name] = v
		}
	}
	mark := len(st.pc)
	x.quantDepth += len(bound)
	v := x.eval(st, cl.Expr)
	x.quantDepth -= len(bound)
	var t *Term
	if v.L == nil {
		if v.C != nil {
			t = x.b.Bool(v.C.String() == "true")
		} else {
			x.fail("clause %s is not boolean", cl.Src)
			t = x.b.True()
		}
	} else {
		t = v.scalar()
	}
	if len(bound) > 0 {
		// facts assumed while evaluating under binders (well-formedness of reads)
		// must stay inside the quantifier
		extra := append([]*Term{}, st.pc[mark:]...)
		if len(extra) > 0 {
			if x.skolem {
				t = x.b.Implies(x.b.And(extra...), t)
			} else {
				t = x.b.And(append([]*Term{t}, extra...)...)
			}
			st.pc = st.pc[:mark]
		}
		if !x.skolem {
			t = x.b.Forall(bound, t, x.inferPatterns(bound, t)...)
		}
		st.names = savedNames
	}
	return t
}

// evalClauseValue evaluates a non-boolean clause (decreases measure).
func (x *Exec) evalClauseValue(st *State, cl *Clause, pos token.Pos) *Term {
	x.spec++
	savedPos := x.specPos
	x.specPos = pos
	defer func() { x.spec--; x.specPos = savedPos }()
	v := x.eval(st, cl.Expr)
	if v.L == nil {
		v = x.convertConst(v, types.Typ[types.Int])
	}
	return v.scalar()
}

// softMiss unwinds the evaluation of an "ensures internal" clause that names a local which is
// not in scope at the exit being checked.
type softMiss struct{}

func (x *Exec) evalSpecIdent(st *State, id *ast.Ident) *Value {
	switch id.Name {
	case "true":
		return scalarV(types.Typ[types.Bool], x.b.True())
	case "false":
		return scalarV(types.Typ[types.Bool], x.b.False())
	case "nil":
		return &Value{T: types.Typ[types.UntypedNil]}
	}
	if v, ok := st.names[id.Name]; ok {
		return v
	}
	if gt, ok := x.eng.cf.Ghosts[id.Name]; ok {
		return x.ghostGlobal(st, id.Name, gt)
	}
	if d, ok := x.eng.cf.UFs[id.Name]; ok && len(d.Params) == 0 {
		t := x.eng.typeByName(d.Ret)
		return x.ufApp(st, d, t, nil)
	}
	if x.specPos.IsValid() {
		sc := x.eng.pkg.Types.Scope().Innermost(x.specPos)
		if sc != nil {
			if _, obj := sc.LookupParent(id.Name, x.specPos); obj != nil {
				return x.valueOfObj(st, obj, id.Name)
			}
		}
	}
	if x.softNames && x.softEndPos.IsValid() {
		// a function-level local declared after the return statement of this exit: it has the
		// value it has at that return (unset: arbitrary), as before locals were resolved per exit
		if sc := x.eng.pkg.Types.Scope().Innermost(x.softEndPos); sc != nil {
			if _, obj := sc.LookupParent(id.Name, x.softEndPos); obj != nil {
				if _, isVar := obj.(*types.Var); isVar && obj.Parent() != x.eng.pkg.Types.Scope() {
					return x.valueOfObj(st, obj, id.Name)
				}
			}
		}
	}
	if obj := x.eng.pkg.Types.Scope().Lookup(id.Name); obj != nil {
		return x.valueOfObj(st, obj, id.Name)
	}
	if x.softNames {
		// a local of an inner block, not in scope at this exit: the caller skips the clause here
		panic(softMiss{})
	}
	x.fail("spec: unresolved name %q", id.Name)
	return x.constInt(0)
}

func (x *Exec) ufApp(st *State, d *UFDecl, rt types.Type, args []*Value) *Value {
	var targs []*Term
	for i, a := range args {
		pt := x.eng.typeByName(d.Params[i].Type)
		a = x.coerce(st, a, pt)
		for _, p := range a.paths() {
			targs = append(targs, a.L[p])
		}
	}
	out := &Value{T: rt, L: map[string]*Term{}}
	for _, l := range x.leavesOf(rt) {
		out.L[l.path] = x.b.App(join("uf."+d.Name, l.path), l.sort, targs...)
	}
	return out
}

func (x *Exec) evalSpecSelector(st *State, e *ast.SelectorExpr) *Value {
	// package-qualified constant?
	if id, ok := e.X.(*ast.Ident); ok {
		if _, isName := st.names[id.Name]; !isName {
			for _, imp := range x.eng.pkg.Types.Imports() {
				if imp.Name() == id.Name {
					if obj := imp.Scope().Lookup(e.Sel.Name); obj != nil {
						return x.valueOfObj(st, obj, e.Sel.Name)
					}
				}
			}
		}
	}
	recv := x.eval(st, e.X)
	return x.specField(st, recv, e.Sel.Name, e)
}

func (x *Exec) specField(st *State, recv *Value, name string, at ast.Node) *Value {
	if recv.L == nil {
		x.fail("spec: field %s of constant", name)
		return x.constInt(0)
	}
	t := recv.T
	if p, ok := t.Underlying().(*types.Pointer); ok {
		ft := x.fieldType(p.Elem(), name)
		if ft == nil {
			x.fail("spec: no field %s in %v", name, p.Elem())
			return x.constInt(0)
		}
		x.noGuard++
		v := x.loadField(st, recv.scalar(), p.Elem(), name, ft)
		x.noGuard--
		return v
	}
	if kindOf(t) == kStruct {
		ft := x.fieldType(t, name)
		if ft == nil {
			x.fail("spec: no field %s in %v", name, t)
			return x.constInt(0)
		}
		return recv.sub(name, ft)
	}
	if kindOf(t) == kSlice {
		switch name {
		case "len", "cap", "off":
			return scalarV(types.Typ[types.Int], recv.L[name])
		}
	}
	x.fail("spec: field %s on %v", name, t)
	return x.constInt(0)
}

func (x *Exec) fieldType(t types.Type, name string) types.Type {
	if stt, ok := t.Underlying().(*types.Struct); ok {
		for i := 0; i < stt.NumFields(); i++ {
			if stt.Field(i).Name() == name {
				return stt.Field(i).Type()
			}
		}
		// promoted through embedded structs
		for i := 0; i < stt.NumFields(); i++ {
			if stt.Field(i).Embedded() {
				if ft := x.fieldType(derefT(stt.Field(i).Type()), name); ft != nil {
					return ft
				}
			}
		}
	}
	if n, ok := t.(*types.Named); ok {
		for _, g := range x.eng.ghostFieldsOf(n.Obj().Name()) {
			if g.Field == name {
				return x.eng.typeByName(g.Type)
			}
		}
	}
	return nil
}

func derefT(t types.Type) types.Type {
	if p, ok := t.Underlying().(*types.Pointer); ok {
		return p.Elem()
	}
	return t
}

func (x *Exec) evalSpecIndex(st *State, e *ast.IndexExpr) *Value {
	base := x.eval(st, e.X)
	idxV := x.eval(st, e.Index)
	switch u := base.T.Underlying().(type) {
	case *types.Slice:
		idx := x.toIndex(st, idxV)
		v := x.selectElem(base, x.b.Add(base.L["off"], idx), u.Elem())
		if kindOf(u.Elem()) == kRef {
			// references stored in memory denote allocated objects (not so for a
			// slice that is itself a quantified variable: it ranges over all values)
			if a := base.L["arr"]; a == nil || !(a.Op == "var" && (strings.HasPrefix(a.Name, "q!") || strings.HasPrefix(a.Name, "sk!"))) {
				x.assumeWellFormed(st, v)
			}
		}
		return v
	case *types.Array:
		if u.Len() == strMapLen {
			if idxV.L == nil {
				idxV = x.convertConst(idxV, types.Typ[types.String])
			}
			return x.selectElem(base, idxV.scalar(), u.Elem())
		}
		if u.Len() == refMapLen {
			if idxV.L == nil { // nil
				return x.selectElem(base, x.b.Int(0), u.Elem())
			}
			return x.selectElem(base, idxV.scalar(), u.Elem())
		}
		return x.selectElem(base, x.toIndex(st, idxV), u.Elem())
	case *types.Basic:
		if base.L == nil {
			base = x.convertConst(base, types.Typ[types.String])
		}
		return scalarV(types.Typ[types.Uint8], x.b.Select(x.strArr(base.scalar()), x.toIndex(st, idxV)))
	case *types.Map:
		k := x.coerce(st, idxV, u.Key())
		return x.mapLoad(st, base, u, k)
	}
	x.fail("spec: index on %v", base.T)
	return x.constInt(0)
}

func (x *Exec) astType(e ast.Expr) types.Type {
	switch t := e.(type) {
	case *ast.Ident:
		return x.eng.typeByName(t.Name)
	case *ast.StarExpr:
		return types.NewPointer(x.astType(t.X))
	case *ast.ArrayType:
		if t.Len == nil {
			return types.NewSlice(x.astType(t.Elt))
		}
	case *ast.SelectorExpr:
		if id, ok := t.X.(*ast.Ident); ok {
			if imp := x.eng.findImport(id.Name); imp != nil {
				if o := imp.Scope().Lookup(t.Sel.Name); o != nil {
					return o.Type()
				}
			}
			for _, imp := range x.eng.pkg.Types.Imports() {
				if imp.Name() == id.Name {
					if o := imp.Scope().Lookup(t.Sel.Name); o != nil {
						return o.Type()
					}
				}
			}
		}
	case *ast.ParenExpr:
		return x.astType(t.X)
	case *ast.MapType:
		return types.NewMap(x.astType(t.Key), x.astType(t.Value))
	case *ast.StructType:
		if t.Fields == nil || len(t.Fields.List) == 0 {
			return types.NewStruct(nil, nil)
		}
	case *ast.InterfaceType:
		return types.Universe.Lookup("any").Type()
	}
	panic(fmt.Sprintf("spec: unsupported type expression %T", e))
}

func isTypeName(x *Exec, st *State, name string) bool {
	if _, ok := st.names[name]; ok {
		return false
	}
	switch name {
	case "int", "int8", "int16", "int32", "int64", "uint", "uint8", "uint16", "uint32", "uint64", "byte", "bool", "string", "any", "rune":
		return true
	}
	if o := x.eng.pkg.Types.Scope().Lookup(name); o != nil {
		_, ok := o.(*types.TypeName)
		return ok
	}
	return false
}

func (x *Exec) evalSpecCall(st *State, e *ast.CallExpr) *Value {
	boolT := types.Typ[types.Bool]
	// conversion with composite type syntax: []byte(x), (*T)(x)
	switch ft := unparen(e.Fun).(type) {
	case *ast.ArrayType, *ast.StarExpr:
		t := x.astType(ft)
		return x.convert(st, x.eval(st, e.Args[0]), t, e)
	}
	// pkg.Func(args): a library function the engine has a model for (the same
	// model the program's own calls of it get), non-variadic only
	if sel, isSel := unparen(e.Fun).(*ast.SelectorExpr); isSel {
		if id, isId := sel.X.(*ast.Ident); isId {
			var pkgT *types.Package
			if imp := x.eng.findImport(id.Name); imp != nil {
				pkgT = imp
			} else {
				for _, imp := range x.eng.pkg.Types.Imports() {
					if imp.Name() == id.Name {
						pkgT = imp
					}
				}
			}
			if pkgT != nil {
				if fo, isFn := pkgT.Scope().Lookup(sel.Sel.Name).(*types.Func); isFn {
					sig := fo.Type().(*types.Signature)
					if !sig.Variadic() && sig.Params().Len() == len(e.Args) && sig.Results().Len() >= 1 {
						var args []*Value
						for i, a := range e.Args {
							v := x.eval(st, a)
							pt := sig.Params().At(i).Type()
							if v.L == nil {
								v = x.convertConst(v, pt)
							} else {
								v = x.coerce(st, v, pt)
							}
							args = append(args, v)
						}
						if outs, ok := x.libCall(st, pkgT.Path()+"."+sel.Sel.Name, nil, args, sig, e); ok && len(outs) >= 1 {
							return outs[0]
						}
					}
				}
			}
		}
		x.fail("spec: unsupported call %s", x.eng.srcText(e))
		return x.constInt(0)
	}
	fn, ok := unparen(e.Fun).(*ast.Ident)
	if !ok {
		x.fail("spec: unsupported call %s", x.eng.srcText(e))
		return x.constInt(0)
	}
	name := fn.Name
	switch name {
	case "old":
		if len(x.oldStack) == 0 {
			x.fail("spec: old() outside postcondition")
			return x.constInt(0)
		}
		o := x.oldStack[len(x.oldStack)-1]
		// evaluate in the old state, with current names (params/bound vars);
		// names carrying old versions are stored under "old$name"
		tmp := o.clone()
		tmp.names = map[string]*Value{}
		for k, v := range st.names {
			tmp.names[k] = v
		}
		for k, v := range o.names {
			if strings.HasPrefix(k, "old$") {
				tmp.names[k[4:]] = v
			}
		}
		tmp.env = map[types.Object]*Value{}
		for k, v := range st.env {
			tmp.env[k] = v
		}
		for k, v := range o.env {
			tmp.env[k] = v
		}
		tmp.pc = st.pc
		v := x.eval(tmp, e.Args[0])
		if len(tmp.pc) > len(st.pc) {
			st.pc = tmp.pc
		}
		return v
	case "len", "cap":
		v := x.eval(st, e.Args[0])
		switch kindOf(v.T) {
		case kSlice:
			return scalarV(types.Typ[types.Int], v.L[name])
		case kString:
			if v.L == nil {
				v = x.convertConst(v, types.Typ[types.String])
			}
			return scalarV(types.Typ[types.Int], x.strLen(v.scalar()))
		}
		if _, ok := v.T.Underlying().(*types.Chan); ok && name == "cap" {
			return scalarV(types.Typ[types.Int], x.b.App("chan.cap", x.idxSort(), v.scalar()))
		}
		x.fail("spec: len of %v", v.T)
		return x.constInt(0)
	case "all", "exists", "allsel", "allabs":
		// all(i, lo, hi, body): forall i. lo <= i < hi ==> body
		// allsel: the same, with triggers on the array reads indexed by i
		if name == "allsel" || name == "allabs" {
			// allabs additionally quantifies over absolute array positions
			savedPS, savedPA := x.patSelect, x.patAbs
			x.patSelect = true
			x.patAbs = name == "allabs"
			name = "all"
			defer func() { x.patSelect, x.patAbs = savedPS, savedPA }()
		}
		iv, ok := e.Args[0].(*ast.Ident)
		if !ok || len(e.Args) != 4 {
			x.fail("spec: all(i, lo, hi, body)")
			return x.constInt(0)
		}
		is := x.idxSort()
		x.nameCount["$q"]++
		bv := x.b.Var(fmt.Sprintf("q!%s!%d", iv.Name, x.nameCount["$q"]), is)
		lo := x.toIndex(st, x.eval(st, e.Args[1]))
		hi := x.toIndex(st, x.eval(st, e.Args[2]))
		saved, had := st.names[iv.Name]
		st.names[iv.Name] = scalarV(types.Typ[types.Int], bv)
		mark := len(st.pc)
		x.quantDepth++
		body := x.evalCond(st, e.Args[3])
		x.quantDepth--
		extra := append([]*Term{}, st.pc[mark:]...)
		st.pc = st.pc[:mark]
		ix := bv // the value the user's variable stands for
		if x.patSelect {
			// triggers must not contain arithmetic: if every array read indexed
			// through the bound variable has the form arr[off+i] for one offset
			// term, quantify over the absolute position p = off+i instead
			if off := x.commonOffset(bv, append([]*Term{body}, extra...)); off != nil && x.patAbs {
				ix = x.b.Sub(bv, off)
				st.names[iv.Name] = scalarV(types.Typ[types.Int], ix)
				mark = len(st.pc)
				x.quantDepth++
				body = x.evalCond(st, e.Args[3])
				x.quantDepth--
				extra = append([]*Term{}, st.pc[mark:]...)
				st.pc = st.pc[:mark]
			}
		}
		if had {
			st.names[iv.Name] = saved
		} else {
			delete(st.names, iv.Name)
		}
		rng := x.b.And(x.b.Le(lo, ix, true), x.b.Lt(ix, hi, true))
		if name == "all" {
			if x.skolem {
				// being proved: type invariants of the values read may be assumed
				gb := x.b.Implies(x.b.And(append([]*Term{rng}, extra...)...), body)
				return scalarV(boolT, x.b.Forall([]*Term{bv}, gb))
			}
			// being assumed: the invariants hold for every index as well
			fb := x.b.Implies(rng, x.b.And(append([]*Term{body}, extra...)...))
			return scalarV(boolT, x.b.Forall([]*Term{bv}, fb, x.inferPatterns([]*Term{bv}, fb)...))
		}
		return scalarV(boolT, x.b.Exists([]*Term{bv}, x.b.And(append([]*Term{rng, body}, extra...)...)))
	case "allstr":
		// allstr(q, body): forall q string. body
		iv, ok := e.Args[0].(*ast.Ident)
		if !ok || len(e.Args) != 2 {
			x.fail("spec: allstr(q, body)")
			return x.constInt(0)
		}
		x.nameCount["$q"]++
		bv := x.b.Var(fmt.Sprintf("q!%s!%d", iv.Name, x.nameCount["$q"]), StrSort)
		saved, had := st.names[iv.Name]
		st.names[iv.Name] = scalarV(types.Typ[types.String], bv)
		mark := len(st.pc)
		x.quantDepth++
		body := x.evalCond(st, e.Args[1])
		x.quantDepth--
		extra := append([]*Term{}, st.pc[mark:]...)
		st.pc = st.pc[:mark]
		if had {
			st.names[iv.Name] = saved
		} else {
			delete(st.names, iv.Name)
		}
		if x.skolem {
			return scalarV(boolT, x.b.Forall([]*Term{bv}, x.b.Implies(x.b.And(extra...), body)))
		}
		fb := x.b.And(append([]*Term{body}, extra...)...)
		return scalarV(boolT, x.b.Forall([]*Term{bv}, fb, x.inferPatterns([]*Term{bv}, fb)...))
	case "allref":
		iv, ok := e.Args[0].(*ast.Ident)
		if !ok || len(e.Args) != 2 {
			x.fail("spec: allref(r, body)")
			return x.constInt(0)
		}
		x.nameCount["$q"]++
		bv := x.b.Var(fmt.Sprintf("q!%s!%d", iv.Name, x.nameCount["$q"]), RefSort)
		saved, had := st.names[iv.Name]
		st.names[iv.Name] = scalarV(types.Typ[types.UnsafePointer], bv)
		mark := len(st.pc)
		body := x.evalCond(st, e.Args[1])
		extra := append([]*Term{}, st.pc[mark:]...)
		st.pc = st.pc[:mark]
		if had {
			st.names[iv.Name] = saved
		} else {
			delete(st.names, iv.Name)
		}
		return scalarV(boolT, x.b.Forall([]*Term{bv}, x.b.Implies(x.b.And(extra...), body)))
	case "ite":
		c := x.evalCond(st, e.Args[0])
		a := x.eval(st, e.Args[1])
		bb := x.eval(st, e.Args[2])
		if a.L == nil && bb.L != nil {
			a = x.convertConst(a, bb.T)
		}
		if bb.L == nil && a.L != nil {
			bb = x.convertConst(bb, a.T)
		}
		if a.L == nil {
			a = x.convertConst(a, types.Typ[types.Int])
			bb = x.convertConst(bb, types.Typ[types.Int])
		}
		return x.iteV(c, a, bb)
	case "istype":
		// istype(v, T)
		v := x.eval(st, e.Args[0])
		t := x.astType(e.Args[1])
		return scalarV(boolT, x.hasDynType(st, v, t))
	case "unbox":
		v := x.eval(st, e.Args[0])
		t := x.astType(e.Args[1])
		return x.unbox(st, v, t)
	case "haskey":
		m := x.eval(st, e.Args[0])
		u, ok := m.T.Underlying().(*types.Map)
		if !ok {
			x.fail("spec: haskey on %v", m.T)
			return x.constInt(0)
		}
		k := x.coerce(st, x.eval(st, e.Args[1]), u.Key())
		return scalarV(boolT, x.mapHas(st, m, u, k))
	case "mutexheld":
		// mutexheld(p.mu) / mutexheld(globalMu): the ghost lock state of that mutex
		if len(e.Args) != 1 {
			x.fail("spec: mutexheld(MUTEX)")
			return x.constInt(0)
		}
		var ref *Term
		switch a := unparen(e.Args[0]).(type) {
		case *ast.Ident:
			ref = x.b.Var("globaladdr."+a.Name, RefSort)
		case *ast.SelectorExpr:
			base := x.eval(st, a.X)
			if p, ok := base.T.Underlying().(*types.Pointer); ok {
				ref = x.b.App("fieldaddr."+structName(p.Elem())+"."+a.Sel.Name, RefSort, base.scalar())
			}
		}
		if ref == nil {
			x.fail("spec: mutexheld: cannot address %s", x.eng.srcText(e.Args[0]))
			return x.constInt(0)
		}
		return scalarV(types.Typ[types.Bool], x.b.Select(x.mutexArr(st), ref))
	case "madehere":
		// madehere(v): the local slice variable v currently holds a slice this
		// function activation allocated itself (make / composite literal)
		if len(e.Args) != 1 {
			x.fail("spec: madehere(v)")
			return x.constInt(0)
		}
		if id, ok := e.Args[0].(*ast.Ident); ok && x.specPos.IsValid() {
			if sc := x.eng.pkg.Types.Scope().Innermost(x.specPos); sc != nil {
				if _, obj := sc.LookupParent(id.Name, x.specPos); obj != nil {
					if hv := x.madeVars[obj]; hv != nil {
						if cur, ok := st.env[hv]; ok {
							return cur
						}
					}
				}
			}
		}
		return scalarV(boolT, x.b.False())
	case "visited":
		// visited(k): k was already taken by the innermost enclosing range over a map
		if len(x.visitedVars) == 0 || len(e.Args) != 1 {
			x.fail("spec: visited(k) outside a range over a map with int or string keys")
			return x.constInt(0)
		}
		vv := st.env[x.visitedVars[len(x.visitedVars)-1]]
		kv := x.eval(st, e.Args[0])
		if vv == nil {
			x.fail("spec: visited set not in scope")
			return x.constInt(0)
		}
		if kv.L == nil {
			if vv.L["arr"].Sort.Idx == StrSort {
				kv = x.convertConst(kv, types.Typ[types.String])
			} else {
				kv = x.convertConst(kv, types.Typ[types.Int])
			}
		}
		return scalarV(boolT, x.b.Select(vv.L["arr"], kv.scalar()))
	case "mapunion", "mapinter":
		// pointwise union / intersection of two ghost string sets (strmapof:bool)
		av := x.eval(st, e.Args[0])
		bv2 := x.eval(st, e.Args[1])
		at, ok := av.T.Underlying().(*types.Array)
		if !ok || at.Len() != strMapLen || kindOf(at.Elem()) != kBool || len(e.Args) != 2 {
			x.fail("spec: %s needs two ghost string sets", name)
			return x.constInt(0)
		}
		x.nameCount["$q"]++
		q := x.b.Var(fmt.Sprintf("q!s!%d", x.nameCount["$q"]), StrSort)
		na := x.b.Fresh("set."+name, av.L["arr"].Sort)
		rd := x.b.Select(na, q)
		var def *Term
		if name == "mapunion" {
			def = x.b.Or(x.b.Select(av.L["arr"], q), x.b.Select(bv2.L["arr"], q))
		} else {
			def = x.b.And(x.b.Select(av.L["arr"], q), x.b.Select(bv2.L["arr"], q))
		}
		x.assume(st, x.b.Forall([]*Term{q}, x.b.Eq(rd, def), []*Term{rd}))
		return &Value{T: av.T, L: map[string]*Term{"arr": na}}
	case "mapset":
		// mapset(m, k, v): the ghost string map m with k bound to v
		mv := x.eval(st, e.Args[0])
		at, ok := mv.T.Underlying().(*types.Array)
		if !ok || (at.Len() != strMapLen && at.Len() != refMapLen) || len(e.Args) != 3 {
			x.fail("spec: mapset needs a ghost string/reference map, a key and a value")
			return x.constInt(0)
		}
		kv := x.eval(st, e.Args[1])
		if kv.L == nil && at.Len() == strMapLen {
			kv = x.convertConst(kv, types.Typ[types.String])
		}
		nv := x.coerce(st, x.eval(st, e.Args[2]), at.Elem())
		return x.storeElem(mv, kv.scalar(), nv)
	case "seqins", "seqdel":
		// seqins(s, k, v): s with v inserted at position k; seqdel(s, k): s without position k
		sv := x.eval(st, e.Args[0])
		at, ok := sv.T.Underlying().(*types.Array)
		if !ok {
			x.fail("spec: %s needs a ghost sequence", name)
			return x.constInt(0)
		}
		k := x.toIndex(st, x.eval(st, e.Args[1]))
		is := x.idxSort()
		x.nameCount["$q"]++
		i := x.b.Var(fmt.Sprintf("q!i!%d", x.nameCount["$q"]), is)
		one := x.b.Num(big.NewInt(1), is)
		out := &Value{T: sv.T, L: map[string]*Term{}}
		var ins *Value
		if name == "seqins" {
			ins = x.coerce(st, x.eval(st, e.Args[2]), at.Elem())
		}
		for p, a := range sv.L {
			na := x.b.Fresh("seq."+p, a.Sort)
			out.L[p] = na
			rd := x.b.Select(na, i)
			var def *Term
			if name == "seqins" {
				lp := strings.TrimPrefix(strings.TrimPrefix(p, "arr"), ".")
				def = x.b.Ite(x.b.Lt(i, k, true), x.b.Select(a, i), x.b.Ite(x.b.Eq(i, k), ins.L[lp], x.b.Select(a, x.b.Sub(i, one))))
			} else {
				def = x.b.Ite(x.b.Lt(i, k, true), x.b.Select(a, i), x.b.Select(a, x.b.Add(i, one)))
			}
			x.assume(st, x.b.Forall([]*Term{i}, x.b.Eq(rd, def), []*Term{rd}))
		}
		return out
	case "boxvalue":
		// boxvalue(x): the respValue whose data is x
		v := x.eval(st, e.Args[0])
		rt := x.eng.typeByName("respValue")
		anyT := x.eng.typeByName("any")
		return (&Value{T: rt, L: map[string]*Term{}}).with("data", x.box(st, v, anyT))
	case "emptymap":
		v := x.eval(st, e.Args[0])
		return scalarV(boolT, x.mapIsEmpty(st, v.scalar()))
	case "asref":
		// asref(p): pointer as untyped ref (for quantifier comparisons)
		v := x.eval(st, e.Args[0])
		return scalarV(types.Typ[types.UnsafePointer], v.scalar())
	case "toref":
		// toref(r, T): ref as *T
		v := x.eval(st, e.Args[0])
		return scalarV(types.NewPointer(x.astType(e.Args[1])), v.scalar())
	case "alloc":
		return scalarV(types.Typ[types.UnsafePointer], st.alloc)
	case "sameheap":
		// sameheap("Struct.field"): field array unchanged since old state
		if len(x.oldStack) == 0 {
			x.fail("sameheap outside postcondition")
			return x.constInt(0)
		}
		o := x.oldStack[len(x.oldStack)-1]
		var cs []*Term
		for _, a := range e.Args {
			lit, ok := a.(*ast.BasicLit)
			if !ok {
				x.fail("sameheap needs string literals")
				return x.constInt(0)
			}
			pat := strings.Trim(lit.Value, "\"`")
			cs = append(cs, x.sameHeap(st, o, pat)...)
		}
		return scalarV(boolT, x.b.And(cs...))
	}
	// type conversion by name
	if isTypeName(x, st, name) && len(e.Args) == 1 {
		t := x.eng.typeByName(name)
		return x.convert(st, x.eval(st, e.Args[0]), t, e)
	}
	// contract-file predicate (macro)
	if d, ok := x.eng.cf.Preds[name]; ok {
		if len(e.Args) != len(d.Params) {
			x.fail("spec: pred %s arity", name)
			return x.constInt(0)
		}
		saved := st.names
		nn := map[string]*Value{}
		for k, v := range saved {
			nn[k] = v
		}
		for i, a := range e.Args {
			v := x.eval(st, a)
			pt := x.eng.typeByName(d.Params[i].Type)
			nn[d.Params[i].Name] = x.coerce(st, v, pt)
		}
		st.names = nn
		r := x.eval(st, d.Body)
		st.names = saved
		return r
	}
	if name == "hashable" && len(e.Args) == 1 {
		v := x.eval(st, e.Args[0])
		var cs []*Term
		for p, t := range v.L {
			if p == "tag" || strings.HasSuffix(p, ".tag") {
				x.useHashable = true
				cs = append(cs, x.b.App("hashable", BoolSort, t))
			}
		}
		return scalarV(boolT, x.b.And(cs...))
	}
	// contract-file UF
	if d, ok := x.eng.cf.UFs[name]; ok {
		var args []*Value
		for _, a := range e.Args {
			args = append(args, x.eval(st, a))
		}
		if len(args) != len(d.Params) {
			x.fail("spec: uf %s arity", name)
			return x.constInt(0)
		}
		return x.ufApp(st, d, x.eng.typeByName(d.Ret), args)
	}
	// built-in pure library helpers usable in specs
	if v, ok := x.specLib(st, name, e); ok {
		return v
	}
	// Go function (spec function or function with inline contract): inline
	if fd, ok := x.eng.funcs[name]; ok {
		callee := x.eng.fobj[name]
		sig := callee.Type().(*types.Signature)
		var args []*Value
		for i, a := range e.Args {
			v := x.eval(st, a)
			if i < sig.Params().Len() {
				v = x.coerce(st, v, sig.Params().At(i).Type())
			}
			args = append(args, v)
		}
		savedSpec := x.spec
		x.spec = 0
		x.noSafety++
		// a spec function whose loop bound is symbolic here cannot be unrolled:
		// it is then an uninterpreted function of its (value-typed) arguments
		probe := x.eng.specFns[name] && x.specValueOnly(sig)
		var snap *State
		savedSym, savedProbe := x.specSymLoop, x.specProbe
		if probe {
			snap = st.clone()
			x.specSymLoop = false
			x.specProbe = true
		}
		outs := x.inlineFunc(st, fd, callee, nil, args)
		sym := x.specSymLoop
		if probe {
			x.specSymLoop, x.specProbe = savedSym || sym, savedProbe
		}
		x.noSafety--
		x.spec = savedSpec
		if probe && sym && sig.Results().Len() == 1 {
			*st = *snap
			var targs []*Term
			for _, a := range args {
				for _, pth := range a.paths() {
					targs = append(targs, a.L[pth])
				}
			}
			rt := sig.Results().At(0).Type()
			out := &Value{T: rt, L: map[string]*Term{}}
			for _, l := range x.leavesOf(rt) {
				out.L[l.path] = x.b.App(join("uf.spec."+name, l.path), l.sort, targs...)
			}
			return out
		}
		if len(outs) == 0 {
			x.fail("spec: function %s returns nothing", name)
			return x.constInt(0)
		}
		return outs[0]
	}
	x.fail("spec: unknown function %q", name)
	return x.constInt(0)
}

// specValueOnly: every parameter is a basic value or a slice of basic values
// (the function then depends on nothing but the argument terms).
func (x *Exec) specValueOnly(sig *types.Signature) bool {
	for i := 0; i < sig.Params().Len(); i++ {
		t := sig.Params().At(i).Type().Underlying()
		if sl, ok := t.(*types.Slice); ok {
			t = sl.Elem().Underlying()
		}
		if _, ok := t.(*types.Basic); !ok {
			return false
		}
	}
	return true
}

func (x *Exec) sameHeap(st, o *State, pat string) []*Term {
	var cs []*Term
	match := func(k string) bool {
		if pat == "*" {
			return !strings.HasPrefix(k, "ghost.")
		}
		if strings.HasSuffix(pat, ".*") {
			return strings.HasPrefix(k, pat[:len(pat)-1])
		}
		return k == pat || strings.HasPrefix(k, pat+".")
	}
	for k, a := range st.heap {
		if !match(k) {
			continue
		}
		oa, ok := o.heap[k]
		if !ok {
			oa = x.b.Var("H0."+k, a.Sort)
		}
		cs = append(cs, x.b.Eq(a, oa))
	}
	return cs
}

// specAssign performs a ghost/effect assignment LHS = rhs (under cond).
func (x *Exec) specAssign(st, pre *State, lhs ast.Expr, rhs *Value, cond *Term) {
	switch l := lhs.(type) {
	case *ast.SelectorExpr:
		x.spec++
		recv := x.eval(pre, l.X)
		x.spec--
		p, ok := recv.T.Underlying().(*types.Pointer)
		if !ok {
			x.fail("effect: LHS receiver must be a pointer")
			return
		}
		ft := x.fieldType(p.Elem(), l.Sel.Name)
		if ft == nil {
			x.fail("effect: no field %s", l.Sel.Name)
			return
		}
		nv := x.coerce(st, rhs, ft)
		if cond != nil {
			x.noGuard++
			cur := x.loadField(st, recv.scalar(), p.Elem(), l.Sel.Name, ft)
			x.noGuard--
			nv = x.iteV(cond, nv, cur)
		}
		x.storeField(st, recv.scalar(), p.Elem(), l.Sel.Name, nv)
	case *ast.Ident:
		// ghost global
		key := "ghost." + l.Name
		gt, declared := x.eng.cf.Ghosts[l.Name]
		if !declared {
			x.fail("effect: unknown ghost global %s", l.Name)
			return
		}
		cur := x.ghostGlobal(st, l.Name, gt)
		nv := x.coerce(st, rhs, cur.T)
		if cond != nil {
			nv = x.iteV(cond, nv, cur)
		}
		st.globals[key] = nv
	default:
		x.fail("effect: unsupported LHS")
	}
}

// specLib: pure helpers available in contracts.
func (x *Exec) specLib(st *State, name string, e *ast.CallExpr) (*Value, bool) {
	is := x.idxSort()
	switch name {
	case "addOverflows64":
		// mathematical a+b leaves int64
		a := x.eval(st, e.Args[0])
		c := x.eval(st, e.Args[1])
		if a.L == nil {
			a = x.convertConst(a, types.Typ[types.Int64])
		}
		if c.L == nil {
			c = x.convertConst(c, types.Typ[types.Int64])
		}
		ta, tc := a.scalar(), c.scalar()
		if ta.Sort.Kind == SBV {
			wa := x.b.SExt(ta, 1)
			wc := x.b.SExt(tc, 1)
			s := x.b.Add(wa, wc)
			w := ta.Sort.Width
			lo := x.b.BVConst(new(big.Int).Neg(new(big.Int).Lsh(big.NewInt(1), uint(w-1))), w+1)
			hi := x.b.BVConst(new(big.Int).Sub(new(big.Int).Lsh(big.NewInt(1), uint(w-1)), big.NewInt(1)), w+1)
			return scalarV(types.Typ[types.Bool], x.b.Or(x.b.Lt(s, lo, true), x.b.Gt(s, hi, true))), true
		}
		s := x.b.Add(ta, tc)
		lo := x.b.IntConst(new(big.Int).Neg(new(big.Int).Lsh(big.NewInt(1), 63)))
		hi := x.b.IntConst(new(big.Int).Sub(new(big.Int).Lsh(big.NewInt(1), 63), big.NewInt(1)))
		return scalarV(types.Typ[types.Bool], x.b.Or(x.b.Lt(s, lo, true), x.b.Gt(s, hi, true))), true
	case "reverse32", "onescount8", "onescount64":
		v := x.eval(st, e.Args[0])
		q := map[string]string{"reverse32": "math/bits.Reverse32", "onescount8": "math/bits.OnesCount8", "onescount64": "math/bits.OnesCount64"}[name]
		var rt types.Type = types.Typ[types.Int]
		at := types.Typ[types.Uint64]
		if name == "reverse32" {
			rt = types.Typ[types.Uint32]
			at = types.Typ[types.Uint32]
		} else if name == "onescount8" {
			at = types.Typ[types.Uint8]
		}
		if v.L == nil {
			v = x.convertConst(v, at)
		}
		sig := types.NewSignatureType(nil, nil, nil, types.NewTuple(types.NewVar(0, nil, "x", at)), types.NewTuple(types.NewVar(0, nil, "", rt)), false)
		outs, ok := x.libCall(st, q, nil, []*Value{v}, sig, e)
		if ok {
			return outs[0], true
		}
	case "strlen":
		v := x.eval(st, e.Args[0])
		if v.L == nil {
			v = x.convertConst(v, types.Typ[types.String])
		}
		return scalarV(types.Typ[types.Int], x.strLen(v.scalar())), true
	case "idx":
		_ = is
	}
	return nil, false
}

// ghostGlobal returns (creating on first use) the value of a ghost global.
func (x *Exec) ghostGlobal(st *State, name, typ string) *Value {
	key := "ghost." + name
	if v, ok := st.globals[key]; ok {
		return v
	}
	t := x.eng.typeByName(typ)
	v := &Value{T: t, L: map[string]*Term{}}
	for _, l := range x.leavesOf(t) {
		v.L[l.path] = x.b.Var(join("G0.ghost."+name, l.path), l.sort)
	}
	st.globals[key] = v
	for _, os := range x.oldStack {
		if _, ok := os.globals[key]; !ok {
			os.globals[key] = v
		}
	}
	return v
}

func (x *Exec) setGhostGlobal(st *State, name string, v *Value) {
	st.globals["ghost."+name] = v
}

// inferPatterns picks trigger terms for a quantifier: applications of
// uninterpreted spec functions that mention every bound variable.
func (x *Exec) inferPatterns(bound []*Term, body *Term) [][]*Term {
	bset := map[*Term]bool{}
	for _, b := range bound {
		bset[b] = true
	}
	var cands []*Term
	seen := map[*Term]bool{}
	var mentions func(t *Term, acc map[*Term]bool)
	mentions = func(t *Term, acc map[*Term]bool) {
		if bset[t] {
			acc[t] = true
		}
		for _, a := range t.Args {
			mentions(a, acc)
		}
	}
	var walk func(t *Term, underQ bool)
	walk = func(t *Term, underQ bool) {
		if seen[t] {
			return
		}
		seen[t] = true
		if t.Op == "forall" || t.Op == "exists" {
			return // nested quantifiers carry their own triggers
		}
		if t.Op == "app" && strings.HasPrefix(t.Name, "uf.") {
			acc := map[*Term]bool{}
			mentions(t, acc)
			if len(acc) == len(bset) {
				cands = append(cands, t)
			}
		}
		for _, a := range t.Args {
			walk(a, underQ)
		}
	}
	walk(body, false)
	if x.patSelect && len(bound) == 1 {
		// requested by allsel(): trigger on the innermost array reads whose
		// index depends on the bound variable
		cands = nil
		seen3 := map[*Term]bool{}
		var hasSel func(t *Term) bool
		hasSel = func(t *Term) bool {
			if t.Op == "select" {
				acc := map[*Term]bool{}
				mentions(t, acc)
				if len(acc) > 0 {
					return true
				}
			}
			for _, a := range t.Args {
				if hasSel(a) {
					return true
				}
			}
			return false
		}
		var walk3 func(t *Term)
		walk3 = func(t *Term) {
			if seen3[t] || t.Op == "forall" || t.Op == "exists" {
				return
			}
			seen3[t] = true
			if t.Op == "select" {
				ia := map[*Term]bool{}
				mentions(t.Args[1], ia)
				aa := map[*Term]bool{}
				mentions(t.Args[0], aa)
				if len(ia) > 0 && len(aa) == 0 && !hasSel(t.Args[1]) {
					cands = append(cands, t)
				}
			}
			for _, a := range t.Args {
				walk3(a)
			}
		}
		walk3(body)
	}
	if len(cands) == 0 && len(bound) == 1 {
		// fall back to array reads indexed exactly by the bound variable
		seen2 := map[*Term]bool{}
		var walk2 func(t *Term)
		walk2 = func(t *Term) {
			if seen2[t] || t.Op == "forall" || t.Op == "exists" {
				return
			}
			seen2[t] = true
			if t.Op == "select" && t.Args[1] == bound[0] {
				// only reads of plain arrays (heap/ghost), not of nested selects over the bound var
				acc := map[*Term]bool{}
				mentions(t.Args[0], acc)
				if len(acc) == 0 {
					cands = append(cands, t)
				}
			}
			for _, a := range t.Args {
				walk2(a)
			}
		}
		walk2(body)
	}
	if len(cands) == 0 {
		return nil
	}
	var pats [][]*Term
	for i, c := range cands {
		if i >= 3 {
			break
		}
		pats = append(pats, []*Term{c})
	}
	return pats
}

// commonOffset: every array read whose index mentions bv has index off+bv for
// one and the same term off (not mentioning bv); returns off, or nil.
func (x *Exec) commonOffset(bv *Term, roots []*Term) *Term {
	var off *Term
	ok := true
	found := false
	seen := map[*Term]bool{}
	var mentions func(t *Term) bool
	mm := map[*Term]bool{}
	mentions = func(t *Term) bool {
		if v, done := mm[t]; done {
			return v
		}
		r := t == bv
		for _, a := range t.Args {
			if mentions(a) {
				r = true
			}
		}
		mm[t] = r
		return r
	}
	var walk func(t *Term)
	walk = func(t *Term) {
		if seen[t] || !ok {
			return
		}
		seen[t] = true
		if t.Op == "select" && mentions(t.Args[1]) {
			idx := t.Args[1]
			if idx == bv {
				ok = false // already absolute somewhere
				return
			}
			if idx.Sort != bv.Sort {
				for _, a := range t.Args {
					walk(a)
				}
				return
			}
			l := x.b.linOf(idx)
			direct := false
			for _, a := range l.atoms {
				if a == bv {
					direct = true
				}
			}
			if !direct {
				// the variable occurs only inside a nested read: not an index of this array
				for _, a := range t.Args {
					walk(a)
				}
				return
			}
			var o *Term
			cnt := 0
			good := l.k.Sign() == 0 && len(l.atoms) == 2
			if good {
				for i, a := range l.atoms {
					if l.coefs[i].Cmp(big.NewInt(1)) != 0 {
						good = false
					}
					if a == bv {
						cnt++
					} else {
						o = a
					}
				}
			}
			if !good || cnt != 1 || o == nil || mentions(o) {
				ok = false
				return
			}
			if off != nil && off != o {
				ok = false
				return
			}
			off = o
			found = true
		}
		for _, a := range t.Args {
			walk(a)
		}
	}
	for _, r := range roots {
		walk(r)
	}
	if !ok || !found {
		return nil
	}
	return off
}
