package main

import (
	"math/big"
	"bytes"
	"context"
	"fmt"
	"os"
	"os/exec"
	"path/filepath"
	"regexp"
	"strings"
	"sync"
	"time"
)

type SolverCfg struct {
	quickOnly bool // stage 1 only (z3-new alone)
	WorkDir   string
	Timeout   time.Duration // per obligation
	Jobs      int
	AllAgree  bool // thorough: run all solvers and compare
	Keep      bool
}

func (o *Obligation) script() string {
	b := o.bank
	var hyps []*Term
	// axioms are only relevant if one of their uninterpreted functions occurs
	// in the obligation itself (dropping an axiom is sound)
	memo0 := map[*Term]map[string]bool{}
	used := map[string]bool{}
	for _, h := range o.Hyps {
		for k := range symbolsOf(h, memo0) {
			used[k] = true
		}
	}
	if o.Goal != nil {
		for k := range symbolsOf(o.Goal, memo0) {
			used[k] = true
		}
	}
	// constants >= 16 of the obligation (table sizes and the like): an axiom
	// that pins an uninterpreted function at such a constant (a per-size
	// definition) is only useful when that constant occurs
	cmemo := map[*Term]bool{}
	oconsts := map[string]bool{}
	for _, h := range o.Hyps {
		bigConstsOf(h, cmemo, oconsts)
	}
	if o.Goal != nil {
		bigConstsOf(o.Goal, cmemo, oconsts)
	}
	for _, a := range o.axioms {
		if a.IsTrue() {
			continue
		}
		if ks := pinnedConsts(a); len(ks) > 0 {
			hit := false
			for _, k := range ks {
				if oconsts[k] {
					hit = true
				}
			}
			if !hit {
				continue
			}
		}
		rel := false
		nUF := 0
		for k := range symbolsOf(a, memo0) {
			if strings.HasPrefix(k, "@") {
				nUF++
				if used[k] {
					rel = true
				}
			}
		}
		if rel || nUF == 0 {
			hyps = append(hyps, a)
		}
	}
	for _, a := range o.Hyps {
		if !a.IsTrue() {
			hyps = append(hyps, a)
		}
	}
	var asserts []*Term
	if o.Cover {
		// satisfiability of the preconditions: engine-internal string axioms
		// (consistent by construction, quantified) are left out
		qm := map[*Term]bool{}
		for _, h := range hyps {
			if h.Op == "forall" {
				continue
			}
			if hasQuant(h, qm) {
				// nested quantified parts are dropped the same way
				if w, ok := weakenQ(b, h, true, qm); ok {
					asserts = append(asserts, w)
				}
				continue
			}
			asserts = append(asserts, h)
		}
	} else {
		ng := b.Not(o.Goal)
		sl := sliceHyps(hyps, ng)
		asserts = append(sl, ng)
		// cheapest attempt: no quantified hypothesis at all (dropping
		// hypotheses is sound for an unsat answer; other answers are ignored)
		qmemo := map[*Term]bool{}
		if !hasQuant(ng, qmemo) {
			var qf []*Term
			dropped := false
			for _, h := range hyps {
				if !hasQuant(h, qmemo) {
					qf = append(qf, h)
					continue
				}
				dropped = true
				// weaken instead of dropping: quantified subformulas become
				// true (positive positions) or false (negative positions)
				if w, ok := weakenQ(b, h, true, qmemo); ok && !w.IsTrue() {
					qf = append(qf, w)
				}
			}
			if dropped {
				qsl := sliceHyps(qf, ng)
				o.smtQF, _ = b.Script(append(qsl, ng), nil, nil)
				if d := os.Getenv("GOVC_DUMPQF"); d != "" && strings.Contains(o.Name, d) {
					os.WriteFile("/var/tmp/qf.smt2", []byte(o.smtQF), 0o644)
				}
			}
		}
		if len(sl) < len(hyps) {
			// keep the unsliced query as a fallback (an infeasible path may
			// only be refutable with hypotheses unrelated to the goal)
			full := append(append([]*Term{}, hyps...), ng)
			var ins []*Term
			for _, nt := range o.inputs {
				if nt.T.Sort.Kind == SBool || nt.T.Sort.Kind == SBV || nt.T.Sort.Kind == SInt {
					ins = append(ins, nt.T)
				}
			}
			o.smtFull, _ = b.Script(full, ins, nil)
		}
	}
	var ins []*Term
	for _, nt := range o.inputs {
		if nt.T.Sort.Kind == SBool || nt.T.Sort.Kind == SBV || nt.T.Sort.Kind == SInt {
			ins = append(ins, nt.T)
		}
	}
	s, logic := b.Script(asserts, ins, nil)
	if logic != "ALL" {
		o.logic = logic
	}
	return s
}

// scriptHyps: the hypotheses of the obligation alone (with the relevant
// axioms); "unsat" means the obligation holds vacuously.
func (o *Obligation) scriptHyps() string {
	b := o.bank
	var asserts []*Term
	memo0 := map[*Term]map[string]bool{}
	used := map[string]bool{}
	for _, h := range o.Hyps {
		for k := range symbolsOf(h, memo0) {
			used[k] = true
		}
	}
	if o.Goal != nil {
		for k := range symbolsOf(o.Goal, memo0) {
			used[k] = true
		}
	}
	for _, a := range o.axioms {
		if a.IsTrue() {
			continue
		}
		rel, nUF := false, 0
		for k := range symbolsOf(a, memo0) {
			if strings.HasPrefix(k, "@") {
				nUF++
				if used[k] {
					rel = true
				}
			}
		}
		if rel || nUF == 0 {
			asserts = append(asserts, a)
		}
	}
	for _, h := range o.Hyps {
		if !h.IsTrue() {
			asserts = append(asserts, h)
		}
	}
	s, _ := b.Script(asserts, nil, nil)
	return s
}

// bigConstsOf collects integer constants >= 16 occurring in t.
func bigConstsOf(t *Term, memo map[*Term]bool, out map[string]bool) {
	if memo[t] {
		return
	}
	memo[t] = true
	if t.Op == "const" && t.Val != nil && (t.Sort.Kind == SInt || t.Sort.Kind == SBV) && t.Val.Cmp(big.NewInt(16)) >= 0 {
		out[t.Val.String()] = true
	}
	for _, a := range t.Args {
		bigConstsOf(a, memo, out)
	}
}

// pinnedConsts: constants >= 16 that are direct arguments of uninterpreted
// function applications in an axiom.
func pinnedConsts(a *Term) []string {
	var out []string
	seen := map[*Term]bool{}
	var walk func(t *Term)
	walk = func(t *Term) {
		if seen[t] {
			return
		}
		seen[t] = true
		if t.Op == "app" {
			for _, x := range t.Args {
				if x.Op == "const" && x.Val != nil && (x.Sort.Kind == SInt || x.Sort.Kind == SBV) && x.Val.Cmp(big.NewInt(16)) >= 0 {
					out = append(out, x.Val.String())
				}
			}
		}
		for _, x := range t.Args {
			walk(x)
		}
	}
	walk(a)
	return out
}

// symbolsOf collects free variables and uninterpreted function names.
func symbolsOf(t *Term, memo map[*Term]map[string]bool) map[string]bool {
	if m, ok := memo[t]; ok {
		return m
	}
	m := map[string]bool{}
	memo[t] = m
	switch t.Op {
	case "var":
		m[t.Name] = true
	case "app":
		m["@"+t.Name] = true
	}
	for _, a := range t.Args {
		for k := range symbolsOf(a, memo) {
			m[k] = true
		}
	}
	for _, p := range t.Pats {
		for _, a := range p {
			for k := range symbolsOf(a, memo) {
				m[k] = true
			}
		}
	}
	return m
}

// sliceHyps keeps the hypotheses connected to the goal through shared
// symbols (dropping hypotheses is sound: it only weakens the assumptions).
// Quantified hypotheses (axioms) are kept whenever they share a function
// symbol with the relevant set.
func sliceHyps(hyps []*Term, goal *Term) []*Term {
	memo := map[*Term]map[string]bool{}
	rel := map[string]bool{}
	for k := range symbolsOf(goal, memo) {
		rel[k] = true
	}
	keep := make([]bool, len(hyps))
	for changed := true; changed; {
		changed = false
		for i, h := range hyps {
			if keep[i] {
				continue
			}
			syms := symbolsOf(h, memo)
			hit := len(syms) == 0
			for k := range syms {
				if rel[k] {
					hit = true
					break
				}
			}
			if hit {
				keep[i] = true
				changed = true
				for k := range syms {
					rel[k] = true
				}
			}
		}
	}
	var out []*Term
	for i, h := range hyps {
		if keep[i] {
			out = append(out, h)
		}
	}
	return out
}

// trivial reports whether the obligation is decided syntactically.
func (o *Obligation) trivial() (string, bool) {
	if o.Cover {
		return "", false
	}
	if o.Goal.IsTrue() {
		return "unsat", true
	}
	for _, h := range o.Hyps {
		if h.IsFalse() {
			return "unsat", true
		}
	}
	return "", false
}

type solverDef struct {
	name string
	args func(file string, to time.Duration) []string
	pre  string
}

var solvers = []solverDef{
	{"z3-new", func(f string, to time.Duration) []string {
		return []string{"z3-new", fmt.Sprintf("-T:%d", int(to.Seconds())+1), f}
	}, ""},
	{"z3", func(f string, to time.Duration) []string {
		return []string{"z3", fmt.Sprintf("-T:%d", int(to.Seconds())+1), f}
	}, ""},
	{"cvc5", func(f string, to time.Duration) []string {
		return []string{"cvc5", fmt.Sprintf("--tlimit=%d", int(to.Milliseconds())), "--produce-models", f}
	}, "(set-logic ALL)\n"},
}

func runOne(ctx context.Context, sd solverDef, file string, to time.Duration) (status, out string, secs float64) {
	args := sd.args(file, to)
	c, cancel := context.WithTimeout(ctx, to+2*time.Second)
	defer cancel()
	cmd := exec.CommandContext(c, args[0], args[1:]...)
	var buf bytes.Buffer
	cmd.Stdout = &buf
	cmd.Stderr = &buf
	t0 := time.Now()
	_ = cmd.Run()
	secs = time.Since(t0).Seconds()
	out = buf.String()
	if os.Getenv("GOVC_SOLVERTRACE") != "" {
		defer func() {
			extra := ""
			if status == "error" {
				extra = " OUT=" + strings.ReplaceAll(out[:min(len(out), 300)], "\n", " | ")
			}
			fmt.Fprintf(os.Stderr, "SOLVER %s %s to=%v -> %s %.2fs%s\n", sd.name, file, to, status, secs, extra)
		}()
	}
	first := ""
	for _, ln := range strings.Split(out, "\n") {
		ln = strings.TrimSpace(ln)
		if ln == "" || strings.HasPrefix(ln, "WARNING") {
			continue // e.g. z3: a pattern it chose to ignore
		}
		first = ln
		break
	}
	switch first {
	case "sat", "unsat", "unknown":
		status = first
	case "timeout":
		status = "timeout"
	default:
		if c.Err() != nil {
			status = "timeout"
		} else if strings.Contains(out, "timeout") || strings.Contains(out, "interrupted") {
			status = "timeout"
		} else {
			status = "error"
		}
	}
	return
}

var reVal = regexp.MustCompile(`\(\s*(\|[^|]*\||[^\s()]+)\s+((?:#x[0-9a-fA-F]+|#b[01]+|true|false|\(- \d+\)|\d+))\s*\)`)

func parseModel(out string) map[string]string {
	m := map[string]string{}
	for _, mm := range reVal.FindAllStringSubmatch(out, -1) {
		m[strings.Trim(mm[1], "|")] = mm[2]
	}
	return m
}

// solve discharges one obligation with the portfolio.
func hasQuant(t *Term, memo map[*Term]bool) bool {
	if v, ok := memo[t]; ok {
		return v
	}
	r := t.Op == "forall" || t.Op == "exists"
	if !r {
		for _, a := range t.Args {
			if hasQuant(a, memo) {
				r = true
				break
			}
		}
	}
	memo[t] = r
	return r
}

// weakenQ returns a quantifier-free consequence of t (when pos) or a
// quantifier-free formula implied by... precisely: pos => (t implies result),
// !pos => (result implies t). ok is false when no such formula is built.
func weakenQ(b *TermBank, t *Term, pos bool, qmemo map[*Term]bool) (*Term, bool) {
	if !hasQuant(t, qmemo) {
		return t, true
	}
	switch t.Op {
	case "forall", "exists":
		return b.Bool(pos), true
	case "not":
		w, ok := weakenQ(b, t.Args[0], !pos, qmemo)
		if !ok {
			return nil, false
		}
		return b.Not(w), true
	case "and", "or":
		var ws []*Term
		for _, a := range t.Args {
			w, ok := weakenQ(b, a, pos, qmemo)
			if !ok {
				return nil, false
			}
			ws = append(ws, w)
		}
		if t.Op == "and" {
			return b.And(ws...), true
		}
		return b.Or(ws...), true
	case "=>":
		l, ok1 := weakenQ(b, t.Args[0], !pos, qmemo)
		r, ok2 := weakenQ(b, t.Args[1], pos, qmemo)
		if !ok1 || !ok2 {
			return nil, false
		}
		return b.Or(b.Not(l), r), true
	case "ite":
		if t.Sort == BoolSort && !hasQuant(t.Args[0], qmemo) {
			x, ok1 := weakenQ(b, t.Args[1], pos, qmemo)
			y, ok2 := weakenQ(b, t.Args[2], pos, qmemo)
			if ok1 && ok2 {
				return b.Ite(t.Args[0], x, y), true
			}
		}
	}
	return nil, false
}

func solve(o *Obligation, cfg *SolverCfg, idx int) {
	if o.done {
		return
	}
	if !o.Cover && o.smtQF != "" {
		qcfg := *cfg
		qcfg.Timeout = 2 * time.Second
		qcfg.quickOnly = true
		keepSmt, keepLogic := o.smt, o.logic
		o.smt, o.logic = o.smtQF, ""
		o.smtQF = ""
		solve1(o, &qcfg, idx)
		if o.Status == "unsat" {
			o.Solver += "(qf)"
			o.smtFull = ""
			return
		}
		o.Status, o.Model, o.Solver, o.Output, o.smtKeep = "", nil, "", "", ""
		o.smt, o.logic = keepSmt, keepLogic
	}
	if !o.Cover && o.smtFull != "" {
		// quick attempts first: sliced, then full (slicing can drop a needed
		// hypothesis, and the full query is often immediate)
		quickCfg := *cfg
		quickCfg.Timeout = 3 * time.Second
		quickCfg.quickOnly = true
		sliced, logic := o.smt, o.logic
		solve1(o, &quickCfg, idx)
		if o.Status == "unsat" {
			o.smtFull = ""
			return
		}
		firstStatus, firstModel, firstSolver, firstOut, firstKeep := o.Status, o.Model, o.Solver, o.Output, o.smtKeep
		o.smt, o.logic, o.Model = o.smtFull, "", nil
		solve1(o, &quickCfg, idx)
		if o.Status == "unsat" {
			o.smtFull = ""
			return
		}
		if firstStatus == "sat" && o.Status != "sat" {
			o.Status, o.Model, o.Solver, o.Output, o.smtKeep = firstStatus, firstModel, firstSolver+"(sliced)", firstOut, firstKeep
		}
		if o.Status == "sat" {
			o.smtFull = ""
			return
		}
		o.smt, o.logic = sliced, logic
	}
	solve1(o, cfg, idx)
	if !o.Cover && o.Status != "unsat" && o.smtFull != "" {
		prevStatus, prevModel, prevSolver, prevOut, prevKeep := o.Status, o.Model, o.Solver, o.Output, o.smtKeep
		o.smt = o.smtFull
		o.smtFull = ""
		o.logic = ""
		o.Model = nil
		solve1(o, cfg, idx)
		if o.Status != "unsat" && o.Status != "sat" && prevStatus == "sat" {
			// keep the candidate model of the sliced query (only a replay can confirm it)
			o.Status, o.Model, o.Solver, o.Output, o.smtKeep = prevStatus, prevModel, prevSolver+"(sliced)", prevOut, prevKeep
		}
	}
	o.smtFull = ""
}

func solve1(o *Obligation, cfg *SolverCfg, idx int) {
	script := o.smt
	o.smt = ""
	defer func() {
		if (o.Cover && o.Status != "sat") || (!o.Cover && o.Status != "unsat") {
			o.smtKeep = script
		}
	}()
	base := filepath.Join(cfg.WorkDir, fmt.Sprintf("o%05d", idx))
	f1 := base + ".smt2"
	f2 := base + ".cvc5.smt2"
	script = "; " + o.Name + "\n" + script
	z3script := script
	if o.logic != "" {
		z3script = "(set-logic " + o.logic + ")\n" + script
	}
	if err := os.WriteFile(f1, []byte(z3script), 0o644); err != nil {
		o.Status = "error"
		o.Output = err.Error()
		return
	}
	useCvc5 := !strings.Contains(script, "(as const") || true
	if useCvc5 {
		os.WriteFile(f2, []byte("(set-logic ALL)\n"+script), 0o644)
	}
	if !cfg.Keep {
		defer os.Remove(f1)
		defer os.Remove(f2)
	}
	want := func(s string) bool { return s == "sat" || s == "unsat" }
	ctx, cancel := context.WithCancel(context.Background())
	defer cancel()
	// stage 1: z3-new alone, short
	quick := cfg.Timeout / 4
	if quick < 2*time.Second {
		quick = 2 * time.Second
	}
	if quick > cfg.Timeout {
		quick = cfg.Timeout
	}
	var st, out string
	var secs float64
	var c5 solverDef
	for _, sd := range solvers {
		if sd.name == "cvc5" {
			c5 = sd
		}
	}
	if useCvc5 && c5.name != "" && !cfg.AllAgree && strings.Contains(script, "forall") {
		// quantified query: z3 and cvc5 side by side with the same short
		// budget; the first "unsat" wins (cvc5's instantiation often decides
		// at once what z3 does not)
		type r1 struct {
			st, out string
			secs    float64
			name    string
		}
		ctx1, cancel1 := context.WithCancel(ctx)
		ch1 := make(chan r1, 3)
		go func() { a, b, c := runOne(ctx1, solvers[0], f1, quick); ch1 <- r1{a, b, c, solvers[0].name} }()
		go func() { a, b, c := runOne(ctx1, c5, f2, quick); ch1 <- r1{a, b, c, c5.name} }()
		go func() { a, b, c := runOne(ctx1, solvers[1], f1, quick); ch1 <- r1{a, b, c, solvers[1].name} }()
		var zr r1
		for k := 0; k < 3; k++ {
			r := <-ch1
			o.Seconds += r.secs
			if r.st == "unsat" {
				cancel1()
				o.Status, o.Solver, o.Output = r.st, r.name, r.out
				return
			}
			if r.name == solvers[0].name {
				zr = r
				if r.st == "sat" {
					break
				}
			}
		}
		cancel1()
		st, out, secs = zr.st, zr.out, 0
	} else {
		st, out, secs = runOne(ctx, solvers[0], f1, quick)
		o.Seconds += secs
	}
	if (want(st) && !cfg.AllAgree) || cfg.quickOnly {
		o.Status, o.Solver, o.Output = st, solvers[0].name, out
		if st == "sat" {
			o.Model = parseModel(out)
		}
		return
	}
	// stage 2: race all
	type res struct {
		st, out, name string
		secs          float64
	}
	ch := make(chan res, 3)
	var wg sync.WaitGroup
	for i, sd := range solvers {
		if i == 0 && want(st) {
			continue
		}
		file := f1
		if sd.name == "cvc5" {
			file = f2
		}
		wg.Add(1)
		go func(sd solverDef, file string) {
			defer wg.Done()
			s, o2, sec := runOne(ctx, sd, file, cfg.Timeout)
			ch <- res{s, o2, sd.name, sec}
		}(sd, file)
	}
	go func() { wg.Wait(); close(ch) }()
	var got []res
	if want(st) {
		got = append(got, res{st, out, solvers[0].name, secs})
	}
	final := res{st: st, out: out, name: solvers[0].name}
	for r := range ch {
		o.Seconds += r.secs
		if want(r.st) {
			got = append(got, r)
			if !cfg.AllAgree {
				cancel()
				break
			}
		} else if !want(final.st) {
			if final.st == "" || final.st == "error" {
				final = r
			}
		}
	}
	if len(got) > 0 {
		final = got[0]
		for _, g := range got[1:] {
			if g.st != final.st {
				o.Status = "error"
				o.Solver = "disagreement"
				o.Output = fmt.Sprintf("%s says %s, %s says %s", final.name, final.st, g.name, g.st)
				return
			}
		}
		if cfg.AllAgree {
			var ns []string
			for _, g := range got {
				ns = append(ns, g.name)
			}
			final.name = strings.Join(ns, "+")
		}
	}
	o.Status, o.Solver, o.Output = final.st, final.name, final.out
	if final.st == "sat" {
		o.Model = parseModel(final.out)
	}
	if len(o.Output) > 4000 {
		o.Output = o.Output[:4000]
	}
}

func solveAll(obls []*Obligation, cfg *SolverCfg) {
	// phase 1: batches and obligations outside batches
	var p1 []*Obligation
	for _, o := range obls {
		if o.batch != nil {
			p1 = append(p1, o.batch)
		}
		if o.inBatch == nil {
			p1 = append(p1, o)
		}
	}
	solveList(p1, cfg, 0)
	// phase 2: members of batches that were not discharged as a whole
	var p2 []*Obligation
	for _, o := range obls {
		if o.inBatch == nil {
			continue
		}
		bt := o.inBatch
		if bt.Status == "unsat" {
			o.Status, o.Solver, o.done = "unsat", bt.Solver+"(batch)", true
			o.Seconds = bt.Seconds / float64(len(bt.members))
			o.smt = ""
			continue
		}
		p2 = append(p2, o)
	}
	solveList(p2, cfg, len(p1))
}

func solveList(obls []*Obligation, cfg *SolverCfg, base int) {
	os.MkdirAll(cfg.WorkDir, 0o755)
	jobs := cfg.Jobs
	if jobs <= 0 {
		jobs = 8
	}
	ch := make(chan int)
	var wg sync.WaitGroup
	for w := 0; w < jobs; w++ {
		wg.Add(1)
		go func() {
			defer wg.Done()
			for i := range ch {
				func() {
					defer func() {
						if r := recover(); r != nil {
							obls[i].Status = "error"
							obls[i].Output = fmt.Sprint("engine panic: ", r)
						}
					}()
					c := cfg
					if obls[i].LongBudget && cfg.Timeout < 60*time.Second {
						// obligations of clauses marked "slow": long budget whatever the tier (relock)
						c2 := *cfg
						c2.Timeout = 60 * time.Second
						c = &c2
					}
					solve(obls[i], c, base+i)
				}()
			}
		}()
	}
	for i := range obls {
		ch <- i
	}
	close(ch)
	wg.Wait()
}
