package main

import (
	"flag"
	"fmt"
	"os"
	"runtime/debug"
	"runtime/pprof"
	"sort"
	"strings"
	"sync"
	"time"
)

func main() {
	debug.SetGCPercent(1000)
	if len(os.Args) < 2 {
		fmt.Fprintln(os.Stderr, "usage: govc <verify|check|selftest|relock> ...")
		os.Exit(2)
	}
	switch os.Args[1] {
	case "verify":
		cmdVerify(os.Args[2:])
	case "check":
		os.Exit(cmdCheck(os.Args[2:]))
	default:
		fmt.Fprintln(os.Stderr, "unknown command", os.Args[1])
		os.Exit(2)
	}
}

// cmdVerify: developer command — verify selected functions and print results.
func cmdVerify(args []string) {
	fs := flag.NewFlagSet("verify", flag.ExitOnError)
	repo := fs.String("repo", "/repo", "repository")
	fn := fs.String("f", "", "function (qualified) or comma list")
	prop := fs.String("p", "", "property id")
	to := fs.Int("t", 10, "timeout seconds")
	keep := fs.Bool("keep", false, "keep smt files")
	work := fs.String("work", "/verif/.work/dev", "work dir")
	caseF := fs.String("case", "", "only cases whose label contains this")
	fs.BoolVar(&coverExits, "cover", false, "add a satisfiability query per normal exit path (vacuity aid)")
	verbose := fs.Bool("v", false, "verbose")
	jobs := fs.Int("j", 16, "parallel solver jobs")
	fs.Parse(args)
	if pf := os.Getenv("GOVC_PROF"); pf != "" {
		f, _ := os.Create(pf)
		pprof.StartCPUProfile(f)
		defer pprof.StopCPUProfile()
	}
	t0 := time.Now()
	eng, err := LoadEngine(*repo)
	if err != nil {
		fmt.Fprintln(os.Stderr, "load:", err)
		os.Exit(2)
	}
	fmt.Printf("loaded in %.1fs, %d contracts\n", time.Since(t0).Seconds(), len(eng.cf.Contracts))
	var names []string
	for _, q := range eng.cf.Order {
		c := eng.cf.Contracts[q]
		if *fn != "" {
			ok := false
			for _, f := range strings.Split(*fn, ",") {
				if f == q {
					ok = true
				}
			}
			if !ok {
				continue
			}
		}
		if *prop != "" && !c.hasProp(*prop) && !contains(c.SafetyProps, *prop) {
			continue
		}
		names = append(names, q)
	}
	var all []*Obligation
	for _, q := range names {
		c := eng.cf.Contracts[q]
		var filter func(string) bool
		if *caseF != "" {
			filter = func(l string) bool { return strings.Contains(l, *caseF) }
		}
		t1 := time.Now()
		obls, rep := eng.VerifyFunc(q, c, filter)
		fmt.Printf("== %s: %d obligations, %d cases, gen %.2fs", q, len(obls), rep.Cases, time.Since(t1).Seconds())
		if rep.Err != "" {
			fmt.Printf("  ENGINE-LIMIT: %s", rep.Err)
		}
		if rep.Trusted {
			fmt.Printf("  (trusted)")
		}
		fmt.Println()
		if *verbose || rep.Err != "" {
			var ks []string
			for k := range rep.Abstracted {
				ks = append(ks, k)
			}
			sort.Strings(ks)
			for _, k := range ks {
				fmt.Printf("     abstracted: %s x%d\n", k, rep.Abstracted[k])
			}
		}
		all = append(all, obls...)
	}
	prepareScripts(all)
	cfg := &SolverCfg{WorkDir: *work, Timeout: time.Duration(*to) * time.Second, Jobs: *jobs, Keep: *keep}
	t2 := time.Now()
	solveAll(all, cfg)
	bad := 0
	var tot float64
	for i, o := range all {
		tot += o.Seconds
		ok := (o.Cover && o.Status == "sat") || (!o.Cover && o.Status == "unsat")
		if !ok {
			bad++
		}
		if !ok || *verbose {
			fmt.Printf("  [%s] %-8s %-10s %6.2fs %s  (%s) #%d\n", map[bool]string{true: "ok", false: "FAIL"}[ok], o.Status, o.Solver, o.Seconds, o.Name, o.Pos, i)
			if !ok && o.Status == "sat" {
				var ks []string
				for k := range o.Model {
					ks = append(ks, k)
				}
				sort.Strings(ks)
				for _, k := range ks {
					fmt.Printf("        %s = %s\n", k, o.Model[k])
				}
			}
			if !ok && o.Status == "error" {
				fmt.Printf("        %s\n", strings.TrimSpace(firstLines(o.Output, 5)))
			}
		}
	}
	fmt.Printf("total %d obligations, %d not discharged, solver cpu %.1fs, wall %.1fs\n", len(all), bad, tot, time.Since(t2).Seconds())
}

func firstLines(s string, n int) string {
	ls := strings.Split(s, "\n")
	if len(ls) > n {
		ls = ls[:n]
	}
	return strings.Join(ls, "\n")
}

// prepareScripts renders SMT text (one goroutine per term bank: banks are not
// thread-safe) and drops term references.
func prepareScripts(obls []*Obligation) {
	byBank := map[*TermBank][]*Obligation{}
	var banks []*TermBank
	for _, o := range obls {
		if _, ok := byBank[o.bank]; !ok {
			banks = append(banks, o.bank)
		}
		byBank[o.bank] = append(byBank[o.bank], o)
	}
	ch := make(chan *TermBank)
	var wg sync.WaitGroup
	for w := 0; w < 16; w++ {
		wg.Add(1)
		go func() {
			defer wg.Done()
			for b := range ch {
				batchSafety(b, byBank[b])
				for _, o := range byBank[b] {
					prepareOne(o)
				}
			}
		}()
	}
	for _, b := range banks {
		ch <- b
	}
	close(ch)
	wg.Wait()
}

// keepHypScript: also print the hypotheses-only query (vacuity sweep at relock)
var keepHypScript bool

func prepareOne(o *Obligation) {
	if o.done && o.bank == nil {
		return
	}
	if st, ok := o.trivial(); ok {
		o.Status = st
		o.Solver = "simplifier"
		o.smt = ""
		o.done = true
	} else {
		func() {
			defer func() {
				if r := recover(); r != nil {
					o.Status = "error"
					o.Output = fmt.Sprint("engine panic while printing: ", r)
					o.done = true
				}
			}()
			o.smt = o.script()
			if keepHypScript && !o.Cover {
				o.smtHyps = o.scriptHyps()
			}
		}()
	}
	o.GoalText = o.bank.Show(o.Goal)
	o.Hyps, o.Goal, o.axioms, o.bank = nil, nil, nil, nil
}

// batchSafety builds one combined query for all safety obligations of a case:
// unsat of "some member fails" discharges every member at once.
func batchSafety(b *TermBank, obls []*Obligation) {
	var mem []*Obligation
	for _, o := range obls {
		if (o.Kind == "safety" || o.Kind == "call-pre") && !o.Cover {
			if _, triv := o.trivial(); !triv {
				mem = append(mem, o)
			}
		}
	}
	if len(mem) < 3 {
		return
	}
	var alts []*Term
	for _, o := range mem {
		alts = append(alts, b.And(append(append([]*Term{}, o.Hyps...), b.Not(o.Goal))...))
	}
	batch := &Obligation{Name: mem[0].Func + ".safety-batch[" + mem[0].Case + "]", Kind: "batch", Func: mem[0].Func, Case: mem[0].Case, bank: b,
		Goal: b.Not(b.Or(alts...)), axioms: mem[0].axioms, inputs: nil}
	func() {
		defer func() { recover() }()
		batch.smt = batch.script()
	}()
	if batch.smt == "" {
		return
	}
	batch.members = mem
	mem[0].batch = batch
	for _, o := range mem {
		o.inBatch = batch
	}
}
