package main

import (
	"fmt"
	"go/ast"
	"go/token"
	"go/types"
	"math/big"
	"os"
	"sort"
	"strings"
	"sync"
	"time"
)

type FuncReport struct {
	Func          string
	File          string
	Mode          string
	Cases         int
	Abstracted    map[string]int
	Err           string
	Trusted       bool
	Unbound       bool
	External      bool
	UsedContracts []string
	UsedTrusted   []string
	BodyHash      string
	Inlined       bool
}

func (e *Engine) newExec(q string, c *Contract) *Exec {
	x := &Exec{eng: e, b: NewBank(), mode: c.Mode, qual: q, contract: c,
		leafCache: map[string][]leaf{}, leafByType: map[types.Type][]leaf{}, abstracted: map[string]int{}, strLits: map[string]*Term{},
		nameCount: map[string]int{}, usedContracts: map[string]bool{}, usedTrusted: map[string]bool{},
		initKeys: map[string]bool{}, anchorHits: map[string]int{}, loopTextHits: map[string]int{}}
	return x
}

type splitCase struct {
	vals  map[string]*big.Int
	label string
}

// caseExpr evaluates a constant expression over the split variables of a case
// (integers and booleans; used by "caseonly").
func caseExpr(e ast.Expr, vals map[string]*big.Int) (iv *big.Int, bv bool, isBool bool, err error) {
	switch t := e.(type) {
	case *ast.ParenExpr:
		return caseExpr(t.X, vals)
	case *ast.BasicLit:
		v, ok := new(big.Int).SetString(t.Value, 0)
		if !ok {
			return nil, false, false, fmt.Errorf("caseonly: bad literal %s", t.Value)
		}
		return v, false, false, nil
	case *ast.Ident:
		if v, ok := vals[t.Name]; ok {
			return v, false, false, nil
		}
		return nil, false, false, fmt.Errorf("caseonly: %s is not a split variable", t.Name)
	case *ast.UnaryExpr:
		if t.Op == token.NOT {
			_, b, _, err := caseExpr(t.X, vals)
			return nil, !b, true, err
		}
	case *ast.BinaryExpr:
		li, lb, lIsB, err := caseExpr(t.X, vals)
		if err != nil {
			return nil, false, false, err
		}
		ri, rb, _, err := caseExpr(t.Y, vals)
		if err != nil {
			return nil, false, false, err
		}
		if lIsB {
			switch t.Op {
			case token.LAND:
				return nil, lb && rb, true, nil
			case token.LOR:
				return nil, lb || rb, true, nil
			}
			return nil, false, false, fmt.Errorf("caseonly: bad boolean operator")
		}
		c := li.Cmp(ri)
		switch t.Op {
		case token.ADD:
			return new(big.Int).Add(li, ri), false, false, nil
		case token.SUB:
			return new(big.Int).Sub(li, ri), false, false, nil
		case token.MUL:
			return new(big.Int).Mul(li, ri), false, false, nil
		case token.LSS:
			return nil, c < 0, true, nil
		case token.LEQ:
			return nil, c <= 0, true, nil
		case token.GTR:
			return nil, c > 0, true, nil
		case token.GEQ:
			return nil, c >= 0, true, nil
		case token.EQL:
			return nil, c == 0, true, nil
		case token.NEQ:
			return nil, c != 0, true, nil
		}
	}
	return nil, false, false, fmt.Errorf("caseonly: unsupported expression")
}

// casesOf enumerates the split cases of a contract, keeping those its
// "caseonly" filter admits (the case.cover obligation is built from the same
// list, so a filter that drops a needed case fails there).
func casesOf(c *Contract) []splitCase {
	all := enumCases(c.Fresh)
	if c.CaseOnly == nil {
		return all
	}
	var out []splitCase
	for _, sc := range all {
		_, ok, isB, err := caseExpr(c.CaseOnly, sc.vals)
		if err != nil || !isB {
			return all
		}
		if ok {
			out = append(out, sc)
		}
	}
	return out
}

func enumCases(fresh []*FreshVar) []splitCase {
	cases := []splitCase{{vals: map[string]*big.Int{}}}
	for _, f := range fresh {
		if !f.Split {
			continue
		}
		var next []splitCase
		for _, c := range cases {
			for v := new(big.Int).Set(f.Lo); v.Cmp(f.Hi) <= 0; v = new(big.Int).Add(v, big.NewInt(1)) {
				nv := map[string]*big.Int{}
				for k, x := range c.vals {
					nv[k] = x
				}
				nv[f.Name] = v
				lab := c.label
				if lab != "" {
					lab += ","
				}
				lab += fmt.Sprintf("%s=%s", f.Name, v)
				next = append(next, splitCase{nv, lab})
			}
		}
		cases = next
	}
	return cases
}

// VerifyFunc generates all obligations for one contracted function.
// coverExits: dev aid (govc verify -cover) that adds a satisfiability query per
// normal exit path, so that a contract which silently kills a path is noticed.
var coverExits bool

func (e *Engine) VerifyFunc(q string, c *Contract, caseFilter func(label string) bool) ([]*Obligation, *FuncReport) {
	rep := &FuncReport{Func: q, Mode: c.Mode, Abstracted: map[string]int{}, File: e.fileOf[q]}
	if c.Lemma {
		return e.verifyLemma(q, c, rep)
	}
	fd := e.funcs[q]
	if fd == nil && c.Trusted && e.isExternalName(q) {
		// trusted contract of a library function (os, encoding/gob, ...)
		rep.Trusted = true
		rep.External = true
		return nil, rep
	}
	if fd == nil {
		rep.Unbound = true
		rep.Err = "contract-unbound: no function " + q
		return nil, rep
	}
	rep.BodyHash = e.bodyHash(fd)
	if c.Trusted {
		rep.Trusted = true
		return nil, rep
	}
	if c.Inline && len(c.Requires) == 0 && len(c.Ensures) == 0 {
		// inlined at every call site: verified in the callers' context
		rep.Inlined = true
		return nil, rep
	}
	cases := casesOf(c)
	type caseOut struct {
		obls []*Obligation
		x    *Exec
	}
	outs := make([]*caseOut, len(cases))
	var wg sync.WaitGroup
	sem := make(chan struct{}, 16)
	for ci, sc := range cases {
		if caseFilter != nil && sc.label != "" && !caseFilter(sc.label) {
			continue
		}
		wg.Add(1)
		sem <- struct{}{}
		go func(ci int, sc splitCase) {
			defer wg.Done()
			defer func() { <-sem }()
			x := e.newExec(q, c)
			x.caseLabel = sc.label
			done := make(chan struct{})
			go func() {
				defer close(done)
				defer func() {
					if r := recover(); r != nil {
						x.softNames, x.softMiss = false, false
						x.fail("engine panic: %v", r)
					}
				}()
				x.runFunc(fd, c, sc, ci == 0)
			}()
			select {
			case <-done:
			case <-time.After(90 * time.Second):
				// generation budget exceeded: engine limit (the goroutine is abandoned)
				y := e.newExec(q, c)
				y.fail("generation exceeded 90s (path explosion)")
				outs[ci] = &caseOut{nil, y}
				return
			}
			if x.failed == nil {
				x.finishObligations()
			}
			outs[ci] = &caseOut{x.obls, x}
		}(ci, sc)
	}
	wg.Wait()
	var all []*Obligation
	for _, co := range outs {
		if co == nil {
			continue
		}
		x := co.x
		rep.Cases++
		for k, v := range x.abstracted {
			rep.Abstracted[k] += v
		}
		for k := range x.usedContracts {
			if !contains(rep.UsedContracts, k) {
				rep.UsedContracts = append(rep.UsedContracts, k)
			}
		}
		for k := range x.usedTrusted {
			if !contains(rep.UsedTrusted, k) {
				rep.UsedTrusted = append(rep.UsedTrusted, k)
			}
		}
		if x.failed != nil {
			rep.Err = x.failed.Error()
			// engine limit: obligations of this function are undecided
			return nil, rep
		}
		all = append(all, co.obls...)
	}
	sort.Strings(rep.UsedContracts)
	sort.Strings(rep.UsedTrusted)
	return all, rep
}

func (e *Engine) bodyHash(fd *ast.FuncDecl) string {
	p1 := e.fset.Position(fd.Pos())
	p2 := e.fset.Position(fd.End())
	src := e.srcs[p1.Filename]
	if src == nil {
		return ""
	}
	h := uint64(1469598103934665603)
	for _, b := range src[p1.Offset:p2.Offset] {
		h ^= uint64(b)
		h *= 1099511628211
	}
	return fmt.Sprintf("%016x", h)
}

func (x *Exec) initState() *State {
	return &State{env: map[types.Object]*Value{}, names: map[string]*Value{}, heap: map[string]*Term{}, globals: map[string]*Value{}, alloc: x.b.Var("alloc0", IntSort), addr: map[types.Object]*Term{}}
}

func (x *Exec) runFunc(fd *ast.FuncDecl, c *Contract, sc splitCase, first bool) {
	e := x.eng
	st := x.initState()
	x.assume(st, x.b.Lt(x.b.Int(0), st.alloc, true))
	callee := e.fobj[x.qual]
	sig := callee.Type().(*types.Signature)
	fr := &fnFrame{fn: fd, sig: sig, qual: x.qual}
	x.frames = []*fnFrame{fr}
	bodyPos := fd.Body.Lbrace + 1

	// fresh (ghost) variables
	for _, f := range c.Fresh {
		t := e.typeByName(f.Type)
		var v *Value
		w, _ := intInfo(t)
		if cv, ok := sc.vals[f.Name]; ok {
			v = scalarV(t, x.b.Num(cv, x.intSort(w)))
		} else {
			tm := x.b.Var("fresh."+f.Name, x.intSort(w))
			v = scalarV(t, tm)
			x.assume(st, x.b.And(x.b.Le(x.b.Num(f.Lo, tm.Sort), tm, true), x.b.Le(tm, x.b.Num(f.Hi, tm.Sort), true)))
			x.b.ranges[tm] = [2]*big.Int{f.Lo, f.Hi}
			x.inputs = append(x.inputs, namedTerm{"fresh." + f.Name, tm})
		}
		st.names[f.Name] = v
	}
	// parameters
	bind := func(name *ast.Ident, t types.Type) {
		obj := e.info.Defs[name]
		if obj == nil {
			return
		}
		var v *Value
		if se, ok := c.Subst[name.Name]; ok {
			x.spec++
			x.specPos = bodyPos
			v = x.coerce(st, x.eval(st, se), t)
			if v.L == nil {
				v = x.convertConst(v, t)
			}
			x.spec--
		} else {
			v = &Value{T: t, L: map[string]*Term{}}
			for _, l := range x.leavesOf(t) {
				tm := x.b.Var(join("in."+name.Name, l.path), l.sort)
				v.L[l.path] = tm
				x.inputs = append(x.inputs, namedTerm{join(name.Name, l.path), tm})
			}
			x.assumeWellFormed(st, v)
		}
		st.env[obj] = v
	}
	if fd.Recv != nil && len(fd.Recv.List) > 0 && len(fd.Recv.List[0].Names) > 0 {
		bind(fd.Recv.List[0].Names[0], sig.Recv().Type())
	}
	pi := 0
	for _, f := range fd.Type.Params.List {
		for _, n := range f.Names {
			bind(n, sig.Params().At(pi).Type())
			pi++
		}
		if len(f.Names) == 0 {
			pi++
		}
	}
	// results
	if fd.Type.Results != nil {
		k := 0
		for _, f := range fd.Type.Results.List {
			if len(f.Names) == 0 {
				rv := types.NewVar(fd.Pos(), e.pkg.Types, fmt.Sprintf("ret!%d", k), e.info.TypeOf(f.Type))
				fr.results = append(fr.results, rv)
				st.env[rv] = x.zeroValue(rv.Type())
				k++
				continue
			}
			for _, n := range f.Names {
				rv := e.info.Defs[n].(*types.Var)
				fr.results = append(fr.results, rv)
				st.env[rv] = x.zeroValue(rv.Type())
				k++
			}
		}
	}
	fr.resNames = resultNames(sig)

	// coverage of substitutions: requires ==> witnesses are in range and reproduce params
	if first && len(c.Subst) > 0 {
		x.substCoverage(fd, c, sig, bodyPos)
	}
	if first && len(c.Subst) == 0 && hasCaseRequires(c) {
		x.caseCoverage(fd, c, sig, bodyPos)
	}

	// preconditions
	for _, r := range c.Requires {
		g := x.evalClause(st, r, bodyPos)
		x.assume(st, g)
		x.learnRanges(g)
	}
	// axioms of the contract file
	for _, ax := range e.cf.Axioms {
		x.axioms = append(x.axioms, x.evalClause(st, ax, bodyPos))
	}
	// vacuity guard: preconditions satisfiable
	cov := &Obligation{Name: x.qual + ".cover.pre", Base: x.qual + ".cover.pre", Kind: "cover", Func: x.qual, Clause: "cover.pre", Goal: x.b.False(), Case: x.caseLabel, bank: x.b, Cover: true}
	if x.caseLabel != "" {
		cov.Name += "[" + x.caseLabel + "]"
	}
	cov.Hyps = append([]*Term{}, st.pc...)
	x.obls = append(x.obls, cov)

	pre := st.clone()
	// old$param names for old(param)
	x.oldStack = []*State{pre}
	// explicit ghost instrumentation at entry
	for _, ge := range c.GhostEntry {
		x.applyEffect(st, st, ge, bodyPos, x.qual)
	}

	end := x.execBlock(st, fd.Body.List)
	if x.failed != nil {
		return
	}
	if end != nil {
		fr.returns = append(fr.returns, end)
	}
	var exits []*State
	if traceOn {
		fmt.Fprintf(os.Stderr, "TRACE %s: %d return states\n", x.qual, len(fr.returns))
	}
	for _, r := range fr.returns {
		r = x.runDefers(r, fr)
		if r != nil {
			exits = append(exits, r)
		}
	}
	// every text-bound annotation must match the function's source (whether or
	// not a feasible path reached it in this run: a failed obligation cuts the
	// paths behind it, and must still be reported)
	hdrs, stmts := x.sourceAnchors(fd)
	unbound := func(what, anchor string) {
		// the annotation is dropped and reported as undecided; everything else
		// in the function is still checked
		o := &Obligation{Name: fmt.Sprintf("%s.annotation.unbound(%s %q)", x.qual, what, anchor), Base: fmt.Sprintf("%s.annotation.unbound(%s %q)", x.qual, what, anchor), Kind: "engine", Func: x.qual, Clause: "annotation.unbound", Goal: x.b.False(), Case: x.caseLabel, bank: x.b}
		o.Hyps = nil
		x.obls = append(x.obls, o)
	}
	for _, h := range c.LoopTextOrder {
		if x.loopTextHits[x.qual+"|"+h] == 0 && !hasPrefixIn(hdrs, h) {
			unbound("loop", h)
		}
	}
	for _, aa := range c.AssertBefore {
		if x.anchorHits["assert:"+aa.Anchor] == 0 && !hasPrefixIn(stmts, aa.Anchor) {
			unbound("assertbefore", aa.Anchor)
		}
	}
	for _, aa := range c.AssertAfter {
		if x.anchorHits["assertafter:"+aa.Anchor] == 0 && !hasPrefixIn(stmts, aa.Anchor) {
			unbound("assertafter", aa.Anchor)
		}
	}
	for _, ga := range c.GhostAfter {
		if x.anchorHits[ga.Anchor] == 0 && !hasPrefixIn(stmts, ga.Anchor) {
			unbound("ghostafter", ga.Anchor)
		}
	}
	for _, ga := range c.GhostBefore {
		if x.anchorHits["before:"+ga.Anchor] == 0 && !hasPrefixIn(stmts, ga.Anchor) {
			unbound("ghostbefore", ga.Anchor)
		}
	}
	for _, gc := range c.GhostCalls {
		if x.anchorHits["call:"+gc.Anchor] == 0 && !hasPrefixIn(stmts, gc.Anchor) {
			unbound("ghostcall", gc.Anchor)
		}
	}
	if len(exits) == 0 {
		// function never returns normally under the precondition
		x.note("no-normal-exit")
		return
	}
	// postconditions are checked per exit path (same obligation base name)
	if len(exits) > 96 || c.MergeExits {
		exits = []*State{x.mergeAll(exits)}
	}
	endPos := fd.Body.Rbrace
	// an "ensures internal" clause speaks about locals: it is checked at the exits where
	// all of them are in scope, and it must be checkable at one exit at least
	internalHits := map[string]int{}
	defer func() {
		for _, en := range c.Ensures {
			if en.Internal && !en.Free && internalHits[en.Name] == 0 && x.failed == nil {
				x.fail("spec: ensures internal %s names a local that is in scope at no exit", en.Name)
			}
		}
	}()
	for ei, exit := range exits {
		if os.Getenv("GOVC_EXITDEBUG") != "" {
			fmt.Fprintf(os.Stderr, "EXITDEBUG %s exit#%d of %d nil=%v failed=%v obls=%d\n", x.qual, ei, len(exits), exit == nil, x.failed, len(x.obls))
		}
		if exit == nil || x.infeasible(exit) {
			if coverExits {
				fmt.Fprintf(os.Stderr, "DEAD-EXIT %s exit#%d (syntactically infeasible)\n", x.qual, ei)
			}
			continue
		}
		if coverExits {
			cv := &Obligation{Name: fmt.Sprintf("%s.cover.exit#%d", x.qual, ei), Base: x.qual + ".cover.exit", Kind: "cover", Func: x.qual, Clause: "cover.exit", Goal: x.b.False(), Case: x.caseLabel, bank: x.b, Cover: true}
			if x.caseLabel != "" {
				cv.Name += "[" + x.caseLabel + "]"
			}
			cv.Hyps = append([]*Term{}, exit.pc...)
			x.obls = append(x.obls, cv)
		}
		for i, n := range fr.resNames {
			exit.names[n] = exit.env[fr.results[i]]
		}
		// parameters in postconditions: entry values, except slices (final contents)
		for obj, v := range pre.env {
			if _, isVar := obj.(*types.Var); !isVar {
				continue
			}
			name := obj.Name()
			if kindOf(obj.Type()) == kSlice {
				if fv, ok := exit.env[obj]; ok {
					exit.names[name] = fv
				}
				pre.names["old$"+name] = v
			} else if !contains(fr.resNames, name) {
				exit.names[name] = v
			}
		}
		for _, en := range c.Ensures {
			if en.Free {
				continue
			}
			es := exit.clone()
			x.skolem = true
			x.softNames, x.softMiss, x.softEndPos = en.Internal, false, endPos
			at := endPos
			if en.Internal && exit.retPos.IsValid() {
				// locals are resolved where this exit's return statement stands
				at = exit.retPos
			}
			var g *Term
			func() {
				spec0, pos0 := x.spec, x.specPos
				defer func() {
					if r := recover(); r != nil {
						if _, ok := r.(softMiss); !ok {
							panic(r)
						}
						x.softMiss = true
						x.spec, x.specPos = spec0, pos0
					}
				}()
				g = x.evalClause(es, en, at)
			}()
			x.softNames = false
			x.skolem = false
			if en.Internal {
				if x.softMiss {
					continue
				}
				internalHits[en.Name]++
			}
			x.oblige(es, "post", en.Name, g, fd.Pos(), en.Props)
		}
		// type invariants of objects written by this function
		for _, tp := range x.touched {
			d := x.eng.cf.Preds[tp.pred]
			if d == nil || len(d.Params) != 1 {
				x.fail("typeinv predicate %s must take one parameter", tp.pred)
				break
			}
			es := exit.clone()
			es.names[d.Params[0].Name] = scalarV(types.NewPointer(tp.typ), tp.ptr)
			x.spec++
			x.specPos = endPos
			g := x.evalCond(es, d.Body)
			x.spec--
			x.oblige(es, "typeinv", "typeinv."+tp.pred, x.b.Implies(tp.when, g), fd.Pos(), nil)
		}
		// frame: heap arrays not in modifies are unchanged
		if (c.Modifies != nil && !contains(c.Modifies, "*")) || c.Pure {
			x.checkFrame(exit, pre, c, fd.Pos())
		}
		// ghost frame: ghosts not declared in modifies are unchanged
		var gnames []string
		for name := range x.eng.cf.Ghosts {
			gnames = append(gnames, name)
		}
		sort.Strings(gnames)
		for _, name := range gnames {
			if c.modifiesGhost(name) {
				continue
			}
			ev, ok := exit.globals["ghost."+name]
			if !ok {
				continue
			}
			pv, ok := pre.globals["ghost."+name]
			if !ok {
				continue
			}
			x.oblige(exit, "frame", "ghostframe."+name, x.eqV(ev, pv), fd.Pos(), nil)
		}
	}
}

// learnRanges records interval facts "c <= v" / "v <= c" / "v < c" from a
// precondition for the simplifier's division rules.
func (x *Exec) learnRanges(g *Term) {
	var conj []*Term
	if g.Op == "and" {
		conj = g.Args
	} else {
		conj = []*Term{g}
	}
	set := func(v *Term, lo, hi *big.Int) {
		if v.Op != "var" {
			return
		}
		r, ok := x.b.ranges[v]
		if !ok {
			w := 64
			if v.Sort.Kind == SBV {
				w = v.Sort.Width
			}
			r = [2]*big.Int{new(big.Int).Neg(new(big.Int).Lsh(big.NewInt(1), uint(w-1))), new(big.Int).Sub(new(big.Int).Lsh(big.NewInt(1), uint(w-1)), big.NewInt(1))}
		}
		if lo != nil && lo.Cmp(r[0]) > 0 {
			r[0] = lo
		}
		if hi != nil && hi.Cmp(r[1]) < 0 {
			r[1] = hi
		}
		x.b.ranges[v] = r
	}
	one := big.NewInt(1)
	for _, c := range conj {
		neg := false
		t := c
		if t.Op == "not" {
			neg = true
			t = t.Args[0]
		}
		if t.Op != "bvslt" && t.Op != "<" {
			continue
		}
		a, b := t.Args[0], t.Args[1]
		// a < b ; neg: a >= b
		switch {
		case !neg && b.IsConst(): // a < c
			set(a, nil, new(big.Int).Sub(b.SVal(), one))
		case !neg && a.IsConst(): // c < b
			set(b, new(big.Int).Add(a.SVal(), one), nil)
		case neg && b.IsConst(): // a >= c
			set(a, b.SVal(), nil)
		case neg && a.IsConst(): // c >= b
			set(b, nil, a.SVal())
		}
	}
}

// substCoverage: the substitution param = EXPR(fresh...) must cover every
// input admitted by the preconditions: with the declared witnesses,
// requires(params) ==> witnesses in range && EXPR(witnesses) == params.
func (x *Exec) substCoverage(fd *ast.FuncDecl, c *Contract, sig *types.Signature, bodyPos token.Pos) {
	y := x.eng.newExec(x.qual, c)
	y.caseLabel = ""
	st := y.initState()
	y.frames = []*fnFrame{{fn: fd, sig: sig, qual: x.qual}}
	// plain symbolic params
	bind := func(name *ast.Ident, t types.Type) {
		obj := y.eng.info.Defs[name]
		if obj == nil {
			return
		}
		v := &Value{T: t, L: map[string]*Term{}}
		for _, l := range y.leavesOf(t) {
			v.L[l.path] = y.b.Var(join("in."+name.Name, l.path), l.sort)
		}
		y.assumeWellFormed(st, v)
		st.env[obj] = v
	}
	if fd.Recv != nil && len(fd.Recv.List) > 0 && len(fd.Recv.List[0].Names) > 0 {
		bind(fd.Recv.List[0].Names[0], sig.Recv().Type())
	}
	pi := 0
	for _, f := range fd.Type.Params.List {
		for _, n := range f.Names {
			bind(n, sig.Params().At(pi).Type())
			pi++
		}
	}
	// requires over the plain params: fresh names must not be referenced there
	for _, r := range c.Requires {
		usesFresh := false
		ast.Inspect(r.Expr, func(n ast.Node) bool {
			if id, ok := n.(*ast.Ident); ok {
				for _, f := range c.Fresh {
					if f.Name == id.Name {
						usesFresh = true
					}
				}
			}
			return true
		})
		if usesFresh {
			continue
		}
		y.assume(st, y.evalClause(st, r, bodyPos))
	}
	// witnesses
	var goals []*Term
	for _, f := range c.Fresh {
		if f.Witness == nil {
			y.fail("fresh %s used in subst needs a witness", f.Name)
			continue
		}
		y.spec++
		y.specPos = bodyPos
		wv := y.eval(st, f.Witness)
		y.spec--
		t := y.eng.typeByName(f.Type)
		if wv.L == nil {
			wv = y.convertConst(wv, t)
		}
		st.names[f.Name] = wv
		tm := wv.scalar()
		goals = append(goals, y.b.Le(y.b.Num(f.Lo, tm.Sort), tm, true), y.b.Le(tm, y.b.Num(f.Hi, tm.Sort), true))
	}
	for pname, se := range c.Subst {
		y.spec++
		y.specPos = bodyPos
		sv := y.eval(st, se)
		pv := y.evalSpecIdent(st, &ast.Ident{Name: pname})
		y.spec--
		if sv.L == nil {
			sv = y.convertConst(sv, pv.T)
		}
		goals = append(goals, y.eqV(sv, pv))
	}
	if y.failed != nil {
		x.failed = y.failed
		return
	}
	y.oblige(st, "subst-cover", "subst.cover", y.b.And(goals...), fd.Pos(), nil)
	y.finishObligations()
	x.obls = append(x.obls, y.obls...)
}

// finishObligations attaches axioms and model inputs.
func (x *Exec) finishObligations() {
	ax := append([]*Term{}, x.axioms...)
	ax = append(ax, x.stringAxioms()...)
	if x.useHashable {
		ax = append(ax, x.b.App("hashable", BoolSort, x.b.Int(0)))
		x.eng.mu.Lock()
		ids := append([]string{}, x.eng.typeIdL...)
		tys := x.eng.typeById
		x.eng.mu.Unlock()
		for i := range ids {
			t := tys[i+1]
			h := x.b.App("hashable", BoolSort, x.b.Int(int64(i+1)))
			if t != nil && types.Comparable(t) && !containsIface(t, 0) {
				ax = append(ax, h)
			} else if t != nil && !types.Comparable(t) {
				ax = append(ax, x.b.Not(h))
			}
		}
	}
	for _, o := range x.obls {
		if o.bank != x.b {
			continue
		}
		if o.axioms == nil {
			o.axioms = ax
		}
		if o.inputs == nil {
			o.inputs = x.inputs
		}
		if o.Props == nil {
			o.Props = x.contract.Props
		}
	}
}

func (x *Exec) stringAxioms() []*Term {
	var out []*Term
	is := x.idxSort()
	var lits []*Term
	var keys []string
	for s := range x.strLits {
		keys = append(keys, s)
	}
	sort.Strings(keys)
	for _, s := range keys {
		t := x.strLits[s]
		lits = append(lits, t)
		out = append(out, x.b.Eq(x.strLen(t), x.b.Num(big.NewInt(int64(len(s))), is)))
		if len(s) <= x.strContentMax() {
			arr := x.strArr(t)
			for i := 0; i < len(s); i++ {
				out = append(out, x.b.Eq(x.b.Select(arr, x.b.Num(big.NewInt(int64(i)), is)), x.b.Num(big.NewInt(int64(s[i])), x.intSort(8))))
			}
		}
	}
	if len(lits) > 1 {
		out = append(out, x.b.mk("distinct", BoolSort, lits...))
	}
	if x.useStrOf {
		// content and extensionality of str.of
		a := x.b.Var("ax!a", ArraySort(is, x.intSort(8)))
		o := x.b.Var("ax!o", is)
		n := x.b.Var("ax!n", is)
		i := x.b.Var("ax!i", is)
		zero := x.b.Num(big.NewInt(0), is)
		s := x.b.App("gostr.of", StrSort, a, o, n)
		rd := x.b.Select(x.strArr(s), i)
		out = append(out, x.b.Forall([]*Term{a, o, n, i},
			x.b.Implies(x.b.And(x.b.Le(zero, i, true), x.b.Lt(i, n, true)), x.b.Eq(rd, x.b.Select(a, x.b.Add(o, i)))),
			[]*Term{rd}))
		sv := x.b.Var("ax!s", StrSort)
		rt := x.b.App("gostr.of", StrSort, x.strArr(sv), zero, x.strLen(sv))
		out = append(out, x.b.Forall([]*Term{sv}, x.b.Eq(rt, sv), []*Term{rt}))
	}
	return out
}

// verifyLemma: a pure formula "forall vars. requires ==> ensures".
func (e *Engine) verifyLemma(q string, c *Contract, rep *FuncReport) ([]*Obligation, *FuncReport) {
	var all []*Obligation
	cases := casesOf(c)
	if hasCaseRequires(c) {
		// the lemma is applied (ghostcall) under its split-variable-free
		// preconditions only: they must imply that some case applies
		y := e.newExec(q, c)
		func() {
			defer func() {
				if r := recover(); r != nil {
					y.fail("engine panic: %v", r)
				}
			}()
			st := y.initState()
			y.frames = []*fnFrame{{qual: q}}
			for _, qv := range c.LemmaVars {
				t := e.typeByName(qv.Type)
				v := &Value{T: t, L: map[string]*Term{}}
				for _, l := range y.leavesOf(t) {
					v.L[l.path] = y.b.Var(join("in."+qv.Name, l.path), l.sort)
				}
				y.assumeWellFormed(st, v)
				st.names[qv.Name] = v
			}
			for _, r := range c.Requires {
				if !clauseUsesFresh(c, r) {
					y.assume(st, y.evalClause(st, r, token.NoPos))
				}
			}
			var alts []*Term
			for _, sc := range cases {
				for _, f := range c.Fresh {
					t := e.typeByName(f.Type)
					w, _ := intInfo(t)
					if cv, ok := sc.vals[f.Name]; ok {
						st.names[f.Name] = scalarV(t, y.b.Num(cv, y.intSort(w)))
					}
				}
				var cs []*Term
				for _, r := range c.Requires {
					if clauseUsesFresh(c, r) {
						cs = append(cs, y.evalClause(st.clone(), r, token.NoPos))
					}
				}
				alts = append(alts, y.b.And(cs...))
			}
			y.oblige(st, "case-cover", "case.cover", y.b.Or(alts...), token.NoPos, nil)
			y.finishObligations()
		}()
		if y.failed != nil {
			rep.Err = y.failed.Error()
		}
		all = append(all, y.obls...)
	}
	for _, sc := range cases {
		x := e.newExec(q, c)
		x.caseLabel = sc.label
		func() {
			defer func() {
				if r := recover(); r != nil {
					x.fail("engine panic: %v", r)
				}
			}()
			st := x.initState()
			x.frames = []*fnFrame{{qual: q}}
			for _, f := range c.Fresh {
				t := e.typeByName(f.Type)
				w, _ := intInfo(t)
				if cv, ok := sc.vals[f.Name]; ok {
					st.names[f.Name] = scalarV(t, x.b.Num(cv, x.intSort(w)))
				} else {
					tm := x.b.Var("fresh."+f.Name, x.intSort(w))
					st.names[f.Name] = scalarV(t, tm)
					x.assume(st, x.b.And(x.b.Le(x.b.Num(f.Lo, tm.Sort), tm, true), x.b.Le(tm, x.b.Num(f.Hi, tm.Sort), true)))
					x.b.ranges[tm] = [2]*big.Int{f.Lo, f.Hi}
					x.inputs = append(x.inputs, namedTerm{f.Name, tm})
				}
			}
			for _, qv := range c.LemmaVars {
				t := e.typeByName(qv.Type)
				v := &Value{T: t, L: map[string]*Term{}}
				for _, l := range x.leavesOf(t) {
					tm := x.b.Var(join("in."+qv.Name, l.path), l.sort)
					v.L[l.path] = tm
					x.inputs = append(x.inputs, namedTerm{join(qv.Name, l.path), tm})
				}
				x.assumeWellFormed(st, v)
				st.names[qv.Name] = v
			}
			for _, r := range c.Requires {
				g := x.evalClause(st, r, token.NoPos)
				x.assume(st, g)
				x.learnRanges(g)
			}
			for _, ax := range e.cf.Axioms {
				x.axioms = append(x.axioms, x.evalClause(st, ax, token.NoPos))
			}
			cov := &Obligation{Name: q + ".cover.pre", Base: q + ".cover.pre", Kind: "cover", Func: q, Clause: "cover.pre", Goal: x.b.False(), Case: x.caseLabel, bank: x.b, Cover: true}
			if x.caseLabel != "" {
				cov.Name += "[" + x.caseLabel + "]"
			}
			cov.Hyps = append([]*Term{}, st.pc...)
			x.obls = append(x.obls, cov)
			for _, en := range c.Ensures {
				x.skolem = true
				g := x.evalClause(st, en, token.NoPos)
				x.skolem = false
				x.oblige(st, "lemma", en.Name, g, token.NoPos, en.Props)
			}
		}()
		rep.Cases++
		for k, v := range x.abstracted {
			rep.Abstracted[k] += v
		}
		if x.failed != nil {
			rep.Err = x.failed.Error()
			return nil, rep
		}
		x.finishObligations()
		all = append(all, x.obls...)
	}
	return all, rep
}

// guardAccess: guarded-by discipline, write-tracking ghosts and type
// invariants, driven by the declarations of the contract file.
func (x *Exec) guardAccess(st *State, structT types.Type, field string, ptr *Term, at ast.Node, write bool) {
	if x.noGuard > 0 || x.spec > 0 || x.noSafety > 0 {
		return
	}
	if x.guardHook != nil {
		x.guardHook(st, structT, field, ptr, at, write)
	}
	cf := x.eng.cf
	sn := structName(structT)
	c := x.eng.cf.Contracts[x.frame().qual]
	if c == nil {
		c = x.contract
	}
	if c != nil && c.GuardsOn {
		for _, g := range cf.Guards {
			if !g.matches(sn, field) {
				continue
			}
			if strings.HasPrefix(g.Pattern, "global.") {
				continue
			}
			if g.WritesOnly && !write {
				continue
			}
			var goal *Term
			var gprops []string
			if g.Mutex != "" {
				// guarded by the mutex field of the same object; the function that allocated the
				// object may initialise it before publishing it
				goal = x.b.Or(x.b.Select(x.mutexArr(st), x.b.App("fieldaddr."+sn+"."+g.Mutex, RefSort, ptr)), x.b.Le(x.b.Var("alloc0", IntSort), ptr, true))
				gprops = []string{"C16"}
			} else {
				goal = x.ghostGlobal(st, g.Ghost, cf.Ghosts[g.Ghost]).scalar()
			}
			x.guardCount++
			txt := ""
			if at != nil {
				txt = x.eng.srcText(at)
			}
			kind := "read"
			if write {
				kind = "write"
			}
			var pos token.Pos
			if at != nil {
				pos = at.Pos()
			}
			x.oblige(st, "guard", fmt.Sprintf("guard.%s(%s.%s @ %s)", kind, sn, field, txt), goal, pos, gprops)
			break
		}
	}
	if write && x.isImmutableKey(sn+"."+field) {
		// a field declared immutable may be initialised by the function that allocated the object
		// (refs at or above the allocation counter on entry)
		x.oblige(st, "safety", fmt.Sprintf("safety.immutable-write(%s.%s)", sn, field), x.b.Le(x.b.Var("alloc0", IntSort), ptr, true), token.NoPos, nil)
	}
	if write {
		for _, g := range cf.OnWrite {
			if g.matches(sn, field) {
				t := x.eng.typeByName(cf.Ghosts[g.Ghost])
				x.setGhostGlobal(st, g.Ghost, scalarV(t, x.b.True()))
			}
		}
		for _, g := range cf.TypeInvs {
			if g.Pattern == sn {
				dup := false
				for i, tp := range x.touched {
					if tp.ptr == ptr && tp.pred == g.Ghost {
						dup = true
						x.touched[i].when = x.b.Or(tp.when, x.b.And(st.pc...))
					}
				}
				if !dup {
					x.touched = append(x.touched, touchedPtr{ptr, structT, g.Ghost, x.b.And(st.pc...)})
				}
			}
		}
	}
}

type touchedPtr struct {
	ptr  *Term
	typ  types.Type
	pred string
	when *Term // path condition at the first write
}

func clauseUsesFresh(c *Contract, cl *Clause) bool {
	uses := false
	ast.Inspect(cl.Expr, func(n ast.Node) bool {
		if id, ok := n.(*ast.Ident); ok {
			for _, f := range c.Fresh {
				if f.Name == id.Name {
					uses = true
				}
			}
		}
		return true
	})
	return uses
}

func hasCaseRequires(c *Contract) bool {
	for _, r := range c.Requires {
		if clauseUsesFresh(c, r) {
			return true
		}
	}
	return false
}

// caseCoverage: requires that mention split variables are per-case
// assumptions; their disjunction over all cases must follow from the other
// requires, so that the case split is complete.
func (x *Exec) caseCoverage(fd *ast.FuncDecl, c *Contract, sig *types.Signature, bodyPos token.Pos) {
	y := x.eng.newExec(x.qual, c)
	st := y.initState()
	y.frames = []*fnFrame{{fn: fd, sig: sig, qual: x.qual}}
	bind := func(name *ast.Ident, t types.Type) {
		obj := y.eng.info.Defs[name]
		if obj == nil {
			return
		}
		v := &Value{T: t, L: map[string]*Term{}}
		for _, l := range y.leavesOf(t) {
			v.L[l.path] = y.b.Var(join("in."+name.Name, l.path), l.sort)
		}
		y.assumeWellFormed(st, v)
		st.env[obj] = v
	}
	if fd.Recv != nil && len(fd.Recv.List) > 0 && len(fd.Recv.List[0].Names) > 0 {
		bind(fd.Recv.List[0].Names[0], sig.Recv().Type())
	}
	pi := 0
	for _, f := range fd.Type.Params.List {
		for _, n := range f.Names {
			bind(n, sig.Params().At(pi).Type())
			pi++
		}
	}
	for _, r := range c.Requires {
		if !clauseUsesFresh(c, r) {
			y.assume(st, y.evalClause(st, r, bodyPos))
		}
	}
	var alts []*Term
	for _, sc := range casesOf(c) {
		for _, f := range c.Fresh {
			t := y.eng.typeByName(f.Type)
			w, _ := intInfo(t)
			if cv, ok := sc.vals[f.Name]; ok {
				st.names[f.Name] = scalarV(t, y.b.Num(cv, y.intSort(w)))
			} else {
				y.fail("case coverage needs every fresh variable of %s to be split", x.qual)
			}
		}
		var cs []*Term
		for _, r := range c.Requires {
			if clauseUsesFresh(c, r) {
				cs = append(cs, y.evalClause(st.clone(), r, bodyPos))
			}
		}
		alts = append(alts, y.b.And(cs...))
	}
	if y.failed != nil {
		x.failed = y.failed
		return
	}
	y.oblige(st, "case-cover", "case.cover", y.b.Or(alts...), fd.Pos(), nil)
	y.finishObligations()
	x.obls = append(x.obls, y.obls...)
}

// strContentMax: literal contents are axiomatised up to this length (longer
// literals only get their length); CR/LF-freedom checks raise it.
func (x *Exec) strContentMax() int {
	if x.contract != nil {
		for _, n := range x.contract.Notes {
			if n == "string-contents" {
				return 256
			}
		}
	}
	return 4
}

// containsIface: comparable statically but may panic dynamically (struct with
// interface fields); such types get no hashable axiom (undecided).
func containsIface(t types.Type, d int) bool {
	if d > 6 {
		return true
	}
	switch u := t.Underlying().(type) {
	case *types.Interface:
		return true
	case *types.Struct:
		for i := 0; i < u.NumFields(); i++ {
			if containsIface(u.Field(i).Type(), d+1) {
				return true
			}
		}
	case *types.Array:
		return containsIface(u.Elem(), d+1)
	}
	return false
}

func (x *Exec) checkFrame(exit, pre *State, c *Contract, pos token.Pos) {
	allowed := func(k string) bool {
		if strings.HasPrefix(k, "ghost.mutexHeld") {
			return contains(c.Modifies, "ghost.mutexHeld")
		}
		if k == "alloc.mapempty" {
			// map bookkeeping: covered by alloc or by any map in the frame
			for _, m := range c.Modifies {
				if m == "alloc" || strings.HasPrefix(m, "map") {
					return true
				}
			}
		}
		for _, m := range c.Modifies {
			if m == "*" || m == "heap" || m == k || strings.HasPrefix(k, m+".") || (m == "map" && strings.HasPrefix(k, "map<")) {
				return true
			}
			if strings.HasSuffix(m, ".*") && strings.HasPrefix(k, m[:len(m)-1]) {
				return true
			}
		}
		return false
	}
	var keys []string
	for k := range exit.heap {
		keys = append(keys, k)
	}
	sort.Strings(keys)
	var cs []*Term
	var changed []string
	// instance-level entries: key -> refs whose cell may change
	inst := map[string][]*Term{}
	var entry *State
	if len(c.InstMods) > 0 {
		entry = pre.clone()
		for obj, v := range pre.env {
			if _, isVar := obj.(*types.Var); isVar {
				entry.names[obj.Name()] = v
			}
		}
	}
	for _, im := range c.InstMods {
		ref, structT, ft, ok := x.instTarget(entry, im)
		if !ok {
			continue
		}
		sn := structName(structT)
		for _, l := range x.leavesOf(ft) {
			key := sn + "." + join(im.Field, l.path)
			inst[key] = append(inst[key], ref)
		}
	}
	for _, k := range keys {
		if allowed(k) || x.initKeys[k] {
			continue
		}
		a := exit.heap[k]
		o, ok := pre.heap[k]
		if !ok {
			if len(pre.pending) > 0 && a.Sort.Kind == SArray && a.Sort.Idx == RefSort {
				// first read after a havoc: the array the entry state would see
				o = x.heapArr(pre, k, a.Sort.Elem)
			} else {
				o = x.b.Var("H0."+k, a.Sort)
			}
		}
		eq := x.b.Eq(a, o)
		if !eq.IsTrue() {
			changed = append(changed, k)
			if a.Sort.Kind == SArray && a.Sort.Idx == IntSort {
				// the frame speaks about objects that existed on entry: cells of
				// objects allocated by this function (refs >= alloc on entry,
				// e.g. address-taken locals) are not visible to the caller
				r := x.b.Fresh("frame.ref", IntSort)
				ante := []*Term{x.b.Le(x.b.Int(0), r, true), x.b.Lt(r, pre.alloc, true)}
				for _, ir := range inst[k] {
					ante = append(ante, x.b.Not(x.b.Eq(r, ir)))
				}
				eq = x.b.Implies(x.b.And(ante...), x.b.Eq(x.b.Select(a, r), x.b.Select(o, r)))
			}
		}
		cs = append(cs, eq)
	}
	if os.Getenv("GOVC_FRAMEDEBUG") != "" && len(changed) > 0 {
		fmt.Fprintf(os.Stderr, "frame %s: possibly changed keys: %v\n", x.qual, changed)
	}
	for k, g := range exit.globals {
		if strings.HasPrefix(k, "ghost.") || strings.HasPrefix(k, "const.") || allowed("global."+k) {
			continue
		}
		if o, ok := pre.globals[k]; ok {
			cs = append(cs, x.eqV(g, o))
		}
	}
	x.oblige(exit, "frame", "frame", x.b.And(cs...), pos, nil)
}

// isExternalName: the qualified name refers to a function outside the package
// under verification (its first segment is neither a package-level type nor a
// package-level function of the repository).
func (e *Engine) isExternalName(q string) bool {
	first := q
	if i := strings.IndexAny(q, "./"); i >= 0 {
		first = q[:i]
	}
	if strings.Contains(q, "/") {
		return true
	}
	return e.pkg.Types.Scope().Lookup(first) == nil
}

func hasPrefixIn(texts []string, p string) bool {
	for _, t := range texts {
		if strings.HasPrefix(t, p) {
			return true
		}
	}
	return false
}

// sourceAnchors lists the loop headers and the statement texts of a function
// body (the strings text-bound annotations are matched against).
func (x *Exec) sourceAnchors(fd *ast.FuncDecl) (hdrs, stmts []string) {
	if fd == nil || fd.Body == nil {
		return
	}
	ast.Inspect(fd.Body, func(n ast.Node) bool {
		switch s := n.(type) {
		case *ast.ForStmt:
			hdrs = append(hdrs, x.loopHeader(s))
		case *ast.RangeStmt:
			hdrs = append(hdrs, x.loopHeader(s))
		case *ast.AssignStmt, *ast.ExprStmt, *ast.IncDecStmt, *ast.DeclStmt, *ast.ReturnStmt, *ast.BranchStmt, *ast.SendStmt:
			stmts = append(stmts, x.eng.srcText(s.(ast.Node)))
		}
		return true
	})
	return
}
