package main

// Symbolic values: a Go value is a flat map from leaf path to SMT term.
//   scalar:      {"": t}
//   slice:       {"arr[.q]": Array Idx leaf, "len", "cap", "nil"}
//   string:      {"": Str}
//   struct:      {"f[.q]": ...}
//   interface:   {"tag": Int, "dyn": Dyn}
//   pointer/map/chan/func: {"": Int (Ref)}

import (
	"fmt"
	"go/constant"
	"go/types"
	"sort"
	"strings"
)

type Value struct {
	T types.Type
	L map[string]*Term
	C constant.Value // untyped constant (L == nil)
	// closure literal (func values)
	Fn *closure
}

type leaf struct {
	path string
	sort *Sort
}

var (
	StrSort = UnintSort("Str")
	DynSort = UnintSort("Dyn")
	F64Sort = UnintSort("F64")
	RefSort = IntSort
)

func (x *Exec) intSort(w int) *Sort {
	if x.mode == "int" {
		return IntSort
	}
	return BVSort(w)
}

func (x *Exec) idxSort() *Sort { return x.intSort(64) }

func basicWidth(b *types.Basic) (w int, signed bool, ok bool) {
	switch b.Kind() {
	case types.Int8:
		return 8, true, true
	case types.Int16:
		return 16, true, true
	case types.Int32:
		return 32, true, true
	case types.Int64, types.Int, types.UntypedInt, types.UntypedRune:
		return 64, true, true
	case types.Uint8:
		return 8, false, true
	case types.Uint16:
		return 16, false, true
	case types.Uint32:
		return 32, false, true
	case types.Uint64, types.Uint, types.Uintptr:
		return 64, false, true
	}
	return 0, false, false
}

func isNamed(t types.Type, pkg, name string) bool {
	n, ok := t.(*types.Named)
	if !ok {
		return false
	}
	o := n.Obj()
	return o.Name() == name && o.Pkg() != nil && o.Pkg().Path() == pkg
}

type tkind int

const (
	kBool tkind = iota
	kInt
	kFloat
	kString
	kRef // pointer, map, chan, func, unsafe
	kSlice
	kArray
	kStruct
	kIface
	kTime
	kOpaque
	kTuple
)

func kindOf(t types.Type) tkind {
	if isNamed(t, "time", "Time") {
		return kTime
	}
	switch u := t.Underlying().(type) {
	case *types.Basic:
		switch {
		case u.Info()&types.IsBoolean != 0:
			return kBool
		case u.Info()&types.IsInteger != 0:
			return kInt
		case u.Info()&types.IsFloat != 0:
			return kFloat
		case u.Info()&types.IsString != 0:
			return kString
		case u.Kind() == types.UnsafePointer:
			return kRef
		case u.Kind() == types.UntypedNil:
			return kRef
		}
		return kOpaque
	case *types.Pointer, *types.Map, *types.Chan, *types.Signature:
		return kRef
	case *types.Slice:
		return kSlice
	case *types.Array:
		return kArray
	case *types.Struct:
		return kStruct
	case *types.Interface:
		return kIface
	case *types.Tuple:
		return kTuple
	}
	return kOpaque
}

func intInfo(t types.Type) (w int, signed bool) {
	if b, ok := t.Underlying().(*types.Basic); ok {
		if w, s, ok := basicWidth(b); ok {
			return w, s
		}
	}
	return 64, true
}

// leavesOf enumerates the leaves of a Go type.
func (x *Exec) leavesOf(t types.Type) []leaf {
	if l, ok := x.leafByType[t]; ok {
		return l
	}
	key := types.TypeString(t, nil)
	if l, ok := x.leafCache[key]; ok {
		x.leafByType[t] = l
		return l
	}
	x.leafCache[key] = nil // recursion guard
	defer func() { x.leafByType[t] = x.leafCache[key] }()
	var out []leaf
	switch kindOf(t) {
	case kBool:
		out = []leaf{{"", BoolSort}}
	case kInt:
		w, _ := intInfo(t)
		out = []leaf{{"", x.intSort(w)}}
	case kTime:
		out = []leaf{{"", x.intSort(64)}}
	case kFloat:
		out = []leaf{{"", F64Sort}}
	case kString:
		out = []leaf{{"", StrSort}}
	case kRef:
		out = []leaf{{"", RefSort}}
	case kSlice:
		el := t.Underlying().(*types.Slice).Elem()
		for _, l := range x.leavesOf(el) {
			out = append(out, leaf{join("arr", l.path), ArraySort(x.idxSort(), l.sort)})
		}
		out = append(out, leaf{"off", x.intSort(64)}, leaf{"len", x.intSort(64)}, leaf{"cap", x.intSort(64)}, leaf{"nil", BoolSort})
	case kArray:
		at := t.Underlying().(*types.Array)
		el := at.Elem()
		ixs := x.idxSort()
		if at.Len() == strMapLen {
			ixs = StrSort
		} else if at.Len() == refMapLen {
			ixs = RefSort
		}
		for _, l := range x.leavesOf(el) {
			out = append(out, leaf{join("arr", l.path), ArraySort(ixs, l.sort)})
		}
	case kStruct:
		st := t.Underlying().(*types.Struct)
		for i := 0; i < st.NumFields(); i++ {
			f := st.Field(i)
			for _, l := range x.leavesOf(f.Type()) {
				out = append(out, leaf{join(f.Name(), l.path), l.sort})
			}
		}
		// ghost fields
		if n, ok := t.(*types.Named); ok {
			for _, g := range x.eng.ghostFieldsOf(n.Obj().Name()) {
				for _, l := range x.leavesOf(x.eng.typeByName(g.Type)) {
					out = append(out, leaf{join(g.Field, l.path), l.sort})
				}
			}
		}
	case kIface:
		out = []leaf{{"tag", IntSort}, {"dyn", DynSort}}
	case kOpaque, kTuple:
		out = []leaf{{"", UnintSort("Opaque")}}
	}
	x.leafCache[key] = out
	return out
}

func join(a, b string) string {
	if b == "" {
		return a
	}
	if a == "" {
		return b
	}
	return a + "." + b
}

func (v *Value) scalar() *Term {
	if v.L == nil {
		panic("scalar() on constant/untyped value")
	}
	t, ok := v.L[""]
	if !ok {
		panic(fmt.Sprintf("scalar() on composite value of type %v (%v)", v.T, v.paths()))
	}
	return t
}

func (v *Value) paths() []string {
	var ps []string
	for p := range v.L {
		ps = append(ps, p)
	}
	sort.Strings(ps)
	return ps
}

// sub returns the sub-value under a path prefix.
func (v *Value) sub(prefix string, t types.Type) *Value {
	out := &Value{T: t, L: map[string]*Term{}}
	for p, tm := range v.L {
		if p == prefix {
			out.L[""] = tm
		} else if strings.HasPrefix(p, prefix+".") {
			out.L[p[len(prefix)+1:]] = tm
		}
	}
	return out
}

// with returns a copy with the sub-value at prefix replaced.
func (v *Value) with(prefix string, s *Value) *Value {
	out := &Value{T: v.T, L: map[string]*Term{}}
	for p, tm := range v.L {
		out.L[p] = tm
	}
	for p, tm := range s.L {
		out.L[join(prefix, p)] = tm
	}
	return out
}

func scalarV(t types.Type, tm *Term) *Value {
	return &Value{T: t, L: map[string]*Term{"": tm}}
}

// fresh symbolic value of a type
func (x *Exec) freshValue(t types.Type, name string) *Value {
	v := &Value{T: t, L: map[string]*Term{}}
	for _, l := range x.leavesOf(t) {
		v.L[l.path] = x.b.Fresh(join(name, l.path), l.sort)
	}
	return v
}

// zero value of a type
func (x *Exec) zeroValue(t types.Type) *Value {
	v := &Value{T: t, L: map[string]*Term{}}
	for _, l := range x.leavesOf(t) {
		v.L[l.path] = x.zeroOfSort(l.sort, l.path)
	}
	return v
}

func (x *Exec) zeroOfSort(s *Sort, path string) *Term {
	switch s.Kind {
	case SBool:
		if path == "nil" || strings.HasSuffix(path, ".nil") {
			return x.b.True()
		}
		return x.b.False()
	case SBV:
		return x.b.BV(0, s.Width)
	case SInt:
		return x.b.Int(0)
	case SArray:
		return x.b.ConstArray(s, x.zeroOfSort(s.Elem, path))
	case SUnint:
		return x.b.Var("zero."+s.Name, s)
	}
	panic("zeroOfSort")
}

// ite over values
func (x *Exec) iteV(c *Term, a, bv *Value) *Value {
	if c.IsTrue() {
		return a
	}
	if c.IsFalse() {
		return bv
	}
	if a == bv {
		return a
	}
	if a.L == nil || bv.L == nil {
		if a.L == nil && bv.L == nil && a.C != nil && bv.C != nil && constant.Compare(a.C, 12 /*token.EQL*/, bv.C) {
			return a
		}
		panic("iteV on untyped constants")
	}
	out := &Value{T: a.T, L: map[string]*Term{}}
	for p, ta := range a.L {
		tb, ok := bv.L[p]
		if !ok {
			panic(fmt.Sprintf("iteV shape mismatch at %q: %v vs %v", p, a.T, bv.T))
		}
		out.L[p] = x.b.Ite(c, ta, tb)
	}
	if a.Fn == bv.Fn {
		out.Fn = a.Fn
	}
	return out
}

// selectV reads element i of an array-shaped set of leaves under prefix "arr".
func (x *Exec) selectElem(v *Value, idx *Term, elemT types.Type) *Value {
	out := &Value{T: elemT, L: map[string]*Term{}}
	for p, tm := range v.L {
		if p == "arr" {
			out.L[""] = x.b.Select(tm, idx)
		} else if strings.HasPrefix(p, "arr.") {
			out.L[p[4:]] = x.b.Select(tm, idx)
		}
	}
	return out
}

func (x *Exec) storeElem(v *Value, idx *Term, e *Value) *Value {
	out := &Value{T: v.T, L: map[string]*Term{}}
	for p, tm := range v.L {
		out.L[p] = tm
	}
	for p, tm := range e.L {
		k := join("arr", p)
		a, ok := out.L[k]
		if !ok {
			panic(fmt.Sprintf("storeElem: no leaf %q in %v", k, v.T))
		}
		out.L[k] = x.b.Store(a, idx, tm)
	}
	return out
}

// equality of two values (structural, leafwise)
func (x *Exec) eqV(a, bv *Value) *Term {
	var cs []*Term
	for p, ta := range a.L {
		tb, ok := bv.L[p]
		if !ok {
			panic(fmt.Sprintf("eqV shape mismatch at %q (%v vs %v)", p, a.T, bv.T))
		}
		cs = append(cs, x.b.Eq(ta, tb))
	}
	return x.b.And(cs...)
}
