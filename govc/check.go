package main

// check <property>: generate the property's obligations from /repo's current
// tree, discharge them, classify against the baseline lock and the known
// findings, replay counterexamples, write evidence, print verdict lines.

import (
	"sync"
	"bytes"
	"context"
	"encoding/json"
	"flag"
	"fmt"
	"os"
	"os/exec"
	"path/filepath"
	"sort"
	"strconv"
	"strings"
	"time"
)

type lockFile struct {
	byProp map[string]map[string]bool // prop -> base obligation name
}

func readLock(path string) *lockFile {
	l := &lockFile{byProp: map[string]map[string]bool{}}
	data, err := os.ReadFile(path)
	if err != nil {
		return l
	}
	for _, ln := range strings.Split(string(data), "\n") {
		f := strings.SplitN(strings.TrimSpace(ln), " ", 2)
		if len(f) != 2 || strings.HasPrefix(f[0], "#") {
			continue
		}
		if l.byProp[f[0]] == nil {
			l.byProp[f[0]] = map[string]bool{}
		}
		l.byProp[f[0]][f[1]] = true
	}
	return l
}

type knownFinding struct {
	Prop, Obligation, Case, Text string
	Fixed                        bool
	Line                         string
}

func readKnown(path string) []*knownFinding {
	var out []*knownFinding
	data, err := os.ReadFile(path)
	if err != nil {
		return nil
	}
	for _, ln := range strings.Split(string(data), "\n") {
		ln = strings.TrimSpace(ln)
		if ln == "" || strings.HasPrefix(ln, "#") {
			continue
		}
		k := &knownFinding{Line: ln}
		if strings.HasPrefix(ln, "fixed:") {
			k.Fixed = true
			out = append(out, k)
			continue
		}
		head, text, _ := strings.Cut(ln, " : ")
		k.Text = text
		for _, f := range strings.Fields(head) {
			kv := strings.SplitN(f, "=", 2)
			if len(kv) != 2 {
				continue
			}
			switch kv[0] {
			case "property":
				k.Prop = kv[1]
			case "obligation":
				k.Obligation = kv[1]
			case "case":
				k.Case = kv[1]
			}
		}
		out = append(out, k)
	}
	return out
}

func (k *knownFinding) matches(prop string, o *Obligation) bool {
	if k.Fixed || k.Prop != prop {
		return false
	}
	if k.Obligation != o.Base {
		return false
	}
	if k.Case == "*" || k.Case == "" && o.Case == "" {
		return true
	}
	return k.Case == o.Case
}

type evidence struct {
	PropertyID  string         `json:"property_id"`
	Tier        string         `json:"tier"`
	Seed        int            `json:"seed"`
	Level       string         `json:"level"`
	Coverage    map[string]any `json:"coverage"`
	Assumptions []string       `json:"assumptions"`
	WallS       float64        `json:"wall_s"`
	Violations  int            `json:"violations"`
}

func cmdCheck(args []string) int {
	fs := flag.NewFlagSet("check", flag.ExitOnError)
	repo := fs.String("repo", "/repo", "repository")
	verif := fs.String("verif", "/verif", "verif dir")
	tier := fs.String("tier", os.Getenv("VERIF_TIER"), "quick|thorough")
	relock := fs.Bool("relock", false, "rewrite the baseline lock for this property")
	keep := fs.Bool("keep", false, "keep smt files")
	toFlag := fs.Int("t", 0, "per-obligation timeout (s)")
	noEvidence := fs.Bool("no-evidence", false, "do not write evidence (selftest runs)")
	fs.Parse(args)
	keepHypScript = *relock && os.Getenv("GOVC_NOVACUITY") == ""
	if fs.NArg() < 1 {
		fmt.Fprintln(os.Stderr, "usage: govc check [flags] <Cxx>")
		return 2
	}
	prop := fs.Arg(0)
	if *tier == "" {
		*tier = "quick"
	}
	seed, _ := strconv.Atoi(os.Getenv("VERIF_SEED"))
	t0 := time.Now()
	eng, err := LoadEngine(*repo)
	if err != nil {
		fmt.Fprintln(os.Stderr, "govc: cannot load repository:", err)
		// a tree that does not build cannot be judged; this is not a property violation
		return 2
	}
	lock := readLock(filepath.Join(*verif, "obligations.lock"))
	known := readKnown(filepath.Join(*verif, "known_findings.txt"))
	locked := lock.byProp[prop]
	if locked == nil {
		locked = map[string]bool{}
	}

	guardedUsers := map[string]bool{}
	for _, g := range eng.cf.Guards {
		if name, ok := strings.CutPrefix(g.Pattern, "global."); ok {
			for _, u := range eng.globalUsers(name) {
				guardedUsers[u] = true
			}
		}
	}
	// 1. generate
	var obls, census []*Obligation
	var reps []*FuncReport
	for _, q := range eng.cf.Order {
		c := eng.cf.Contracts[q]
		touches := c.hasProp(prop) || contains(c.SafetyProps, prop) || contains(c.Touches, prop) || (!c.Trusted && !c.Lemma && eng.calleeProps(q)[prop])
		if !touches && prop == "C16" && c.GuardsOn && guardedUsers[q] {
			touches = true
		}
		if len(c.Only) > 0 && !contains(c.Only, prop) {
			touches = false
		}
		if !touches {
			for _, aa := range append(append([]*AssertAnchor{}, c.AssertBefore...), c.AssertAfter...) {
				if aa.Cl != nil && aa.Cl.Props != nil && aa.Cl.inProp(c, prop) {
					touches = true
				}
			}
			for _, ls := range c.Loops {
				for _, cl := range ls.Invariants {
					if cl.Props != nil && cl.inProp(c, prop) {
						touches = true
					}
				}
			}
		}
		if !touches {
			for _, cl := range append(append([]*Clause{}, c.Ensures...), c.Requires...) {
				if cl.Props != nil && cl.inProp(c, prop) {
					touches = true
				}
			}
		}
		if !touches {
			continue
		}
		o, rep := eng.VerifyFunc(q, c, nil)
		reps = append(reps, rep)
		for _, ob := range o {
			if ob.Props != nil && !contains(ob.Props, prop) {
				continue
			}
			obls = append(obls, ob)
		}
	}
	// census obligations: every function that mentions a guarded package-level variable is under a
	// contract with the guard discipline switched on
	if prop == "C16" {
		for _, g := range eng.cf.Guards {
			name, ok := strings.CutPrefix(g.Pattern, "global.")
			if !ok {
				continue
			}
			us := eng.globalUsers(name)
			var bad []string
			for _, u := range us {
				if c := eng.cf.Contracts[u]; c == nil || !c.GuardsOn || c.Trusted {
					bad = append(bad, u)
				}
			}
			o := &Obligation{Name: "census.global." + name, Base: "census.global." + name, Kind: "census", Func: "census", Clause: name, Props: []string{prop}, done: true, Solver: "syntactic census", Status: "unsat",
				GoalText: fmt.Sprintf("every function mentioning the guarded variable %s is verified with guards on; users: %s", name, strings.Join(us, ", "))}
			if len(bad) > 0 {
				o.Status = "sat"
				o.Output = "users without a guards-on contract: " + strings.Join(bad, ", ")
			}
			census = append(census, o)
		}
	}
	// census obligations: a helper that must be called with the store lock held (a precondition
	// named "locked") is only called from functions that are under contract, so that the
	// precondition is checked at every call site
	if prop == "C08" || prop == "C16" {
		for _, q := range eng.cf.Order {
			c := eng.cf.Contracts[q]
			needs := false
			for _, r := range c.Requires {
				if r.Name == "locked" && !r.Free && contains(r.Props, prop) {
					needs = true
				}
			}
			if !needs {
				continue
			}
			cs := eng.callersOf(q)
			var bad []string
			for _, u := range cs {
				// (a trusted caller is on the stated trusted list with its own precondition)
				if cc := eng.cf.Contracts[u]; cc == nil || cc.Inline {
					bad = append(bad, u)
				}
			}
			o := &Obligation{Name: "census.callers." + q, Base: "census.callers." + q, Kind: "census", Func: "census", Clause: q, Props: []string{prop}, done: true, Solver: "syntactic census", Status: "unsat",
				GoalText: fmt.Sprintf("every function calling %s (which requires the store lock) is under contract; callers: %s", q, strings.Join(cs, ", "))}
			if len(bad) > 0 {
				o.Status = "sat"
				o.Output = "callers without contract: " + strings.Join(bad, ", ")
			}
			census = append(census, o)
		}
	}
	// census obligations: every writer of a field declared stable is under contract
	if prop == "C08" || prop == "C16" {
		for _, key := range eng.cf.Stable {
			ws := eng.fieldWriters(key)
			var bad []string
			for _, w := range ws {
				if c := eng.cf.Contracts[w]; c == nil || c.Inline {
					bad = append(bad, w)
				}
			}
			o := &Obligation{Name: "census." + key, Base: "census." + key, Kind: "census", Func: "census", Clause: key, Props: []string{prop}, done: true, Solver: "syntactic census", Status: "unsat",
				GoalText: fmt.Sprintf("every function writing %s is under contract; writers: %s", key, strings.Join(ws, ", "))}
			if len(bad) > 0 {
				o.Status = "sat"
				o.Output = "writers without contract: " + strings.Join(bad, ", ")
			}
			census = append(census, o)
		}
	}
	// census obligations: a field with a closed list of writers is assigned nowhere else in the package
	for _, wd := range eng.cf.Writers {
		if !contains(wd.Props, prop) {
			continue
		}
		ws := eng.fieldWriters(wd.Field)
		var bad []string
		for _, w := range ws {
			if !contains(wd.Funcs, w) {
				bad = append(bad, w)
			}
		}
		o := &Obligation{Name: "census.writers." + wd.Field, Base: "census.writers." + wd.Field, Kind: "census", Func: "census", Clause: wd.Field, Props: []string{prop}, done: true, Solver: "syntactic census", Status: "unsat",
			GoalText: fmt.Sprintf("%s is assigned only by %s; writers found: %s", wd.Field, strings.Join(wd.Funcs, ", "), strings.Join(ws, ", "))}
		if len(bad) > 0 {
			o.Status = "sat"
			o.Output = "writers outside the declared list: " + strings.Join(bad, ", ")
		}
		census = append(census, o)
	}
	genS := time.Since(t0).Seconds()
	prepareScripts(obls)
	obls = append(obls, census...)

	// obligations of clauses marked "slow" are solved in the thorough tier and at relock only;
	// in the quick tier they are left out (their lock entries are then not expected)
	slowBase := map[string]bool{}
	for _, q := range eng.cf.Order {
		c := eng.cf.Contracts[q]
		var cls []*Clause
		cls = append(cls, c.Ensures...)
		cls = append(cls, c.Requires...)
		for _, aa := range append(append([]*AssertAnchor{}, c.AssertBefore...), c.AssertAfter...) {
			if aa.Cl != nil {
				cls = append(cls, aa.Cl)
			}
		}
		for _, ls := range c.Loops {
			cls = append(cls, ls.Invariants...)
		}
		for _, cl := range cls {
			if cl.Slow && cl.Name != "" {
				slowBase[q+"."+cl.Name] = true
				slowBase[q+"."+cl.Name+".entry"] = true
				slowBase[q+"."+cl.Name+".preserve"] = true
			}
		}
	}
	nSlowSkipped := 0
	if *tier != "thorough" && !*relock {
		var keepO []*Obligation
		for _, o := range obls {
			if slowBase[o.Base] {
				nSlowSkipped++
				continue
			}
			keepO = append(keepO, o)
		}
		obls = keepO
	}
	// 2. solve
	to := 10 * time.Second
	if *relock {
		for _, o := range obls {
			if slowBase[o.Base] {
				o.LongBudget = true
			}
		}
	}
	if *tier == "thorough" {
		to = 60 * time.Second
	}
	if *toFlag > 0 {
		to = time.Duration(*toFlag) * time.Second
	}
	work := filepath.Join(*verif, ".work", prop+"-"+strconv.Itoa(os.Getpid()))
	cfg := &SolverCfg{WorkDir: work, Timeout: to, Jobs: 16, Keep: *keep, AllAgree: false}
	defer func() {
		if !*keep {
			os.RemoveAll(work)
		}
	}()
	t1 := time.Now()
	solveAll(obls, cfg)
	solveS := time.Since(t1).Seconds()

	// 3. classify
	type group struct {
		base  string
		insts []*Obligation
		fails []*Obligation
	}
	groups := map[string]*group{}
	var order []string
	for _, o := range obls {
		g := groups[o.Base]
		if g == nil {
			g = &group{base: o.Base}
			groups[o.Base] = g
			order = append(order, o.Base)
		}
		g.insts = append(g.insts, o)
		ok := (o.Cover && o.Status == "sat") || (!o.Cover && o.Status == "unsat")
		if !ok {
			g.fails = append(g.fails, o)
		}
	}
	if *relock {
		for _, r := range reps {
			if r.Err != "" {
				fmt.Printf("  RELOCK WARNING: %s produced no obligations: %s\n", r.Func, r.Err)
			}
		}
		// vacuity sweep: the hypotheses of (one instance of) every discharged
		// group must not be contradictory on their own
		if os.Getenv("GOVC_NOVACUITY") == "" {
			type vq struct {
				base string
				o    *Obligation
				file string
			}
			var qs []vq
			for i, bname := range order {
				g := groups[bname]
				if len(g.fails) > 0 || len(g.insts) == 0 {
					continue
				}
				o := g.insts[0]
				if o.Cover || o.smtHyps == "" || strings.Contains(o.Name, "safety.panic(") {
					continue
				}
				f := filepath.Join(work, fmt.Sprintf("vac%05d.smt2", i))
				os.MkdirAll(work, 0o755)
				os.WriteFile(f, []byte(o.smtHyps), 0o644)
				qs = append(qs, vq{bname, o, f})
			}
			var wg sync.WaitGroup
			sem := make(chan struct{}, 16)
			var mu sync.Mutex
			vac := 0
			for _, q := range qs {
				wg.Add(1)
				sem <- struct{}{}
				go func(q vq) {
					defer wg.Done()
					defer func() { <-sem }()
					st, _, _ := runOne(context.Background(), solvers[0], q.file, 2*time.Second)
					if st != "unsat" {
						f2 := q.file + ".cvc5.smt2"
						data, _ := os.ReadFile(q.file)
						os.WriteFile(f2, append([]byte("(set-logic ALL)\n"), data...), 0o644)
						for _, sd := range solvers {
							if sd.name == "cvc5" {
								st, _, _ = runOne(context.Background(), sd, f2, 2*time.Second)
							}
						}
						os.Remove(f2)
					}
					if st == "unsat" && os.Getenv("GOVC_KEEPVAC") != "" {
						data, _ := os.ReadFile(q.file)
						os.WriteFile("/var/tmp/vac-"+sanitize(q.o.Name)+".smt2", data, 0o644)
					}
					os.Remove(q.file)
					if st == "unsat" {
						mu.Lock()
						vac++
						fmt.Printf("  RELOCK WARNING: %s holds vacuously (its hypotheses are contradictory)\n", q.o.Name)
						mu.Unlock()
					}
				}(q)
			}
			wg.Wait()
			fmt.Printf("vacuity sweep %s: %d groups checked, %d vacuous\n", prop, len(qs), vac)
		}
		// functions all of whose safety obligations (for this property) are discharged: the
		// function as a whole is claimed panic-free, so a safety obligation that appears later
		// in it and fails is a violation although it cannot be in the lock
		safetyAll := map[string]bool{}
		safetyBad := map[string]bool{}
		for _, b := range order {
			g := groups[b]
			if len(g.insts) == 0 || g.insts[0].Kind != "safety" {
				continue
			}
			fn := g.insts[0].Func
			safetyAll[fn] = true
			if len(g.fails) > 0 {
				safetyBad[fn] = true
			}
		}
		order2 := append([]string{}, order...)
		// functions all of whose obligations for this property are discharged: any obligation that
		// appears later in such a function and is refuted (sat) is a violation although it cannot
		// be in the lock (e.g. a call of a helper whose precondition the new caller does not meet)
		fnAll := map[string]bool{}
		fnBad := map[string]bool{}
		for _, b := range order {
			g := groups[b]
			if len(g.insts) == 0 || g.insts[0].Kind == "census" || g.insts[0].Cover {
				continue
			}
			fn := g.insts[0].Func
			fnAll[fn] = true
			if len(g.fails) > 0 {
				fnBad[fn] = true
			}
		}
		// (a function under contract that was not even looked at for this property has no
		// obligation of it at all, hence none that fails)
		for _, q := range eng.cf.Order {
			if c := eng.cf.Contracts[q]; c != nil && !c.Trusted && !c.Lemma && !c.Inline && eng.funcs[q] != nil {
				fnAll[q] = true
			}
		}
		// a function the engine could not process (engine limit: no obligations at all) is not
		// "complete": nothing about it was discharged
		for _, r := range reps {
			if r.Err != "" {
				fnBad[r.Func] = true
				safetyBad[r.Func] = true
			}
		}
		for fn := range fnAll {
			if !fnBad[fn] {
				m := fn + ".all.complete"
				groups[m] = &group{}
				order2 = append(order2, m)
			}
		}
		for fn := range safetyAll {
			if !safetyBad[fn] {
				m := fn + ".safety.complete"
				groups[m] = &group{}
				order2 = append(order2, m)
			}
		}
		return writeLock(filepath.Join(*verif, "obligations.lock"), prop, order2, func(b string) bool { return len(groups[b].fails) == 0 }, lock)
	}

	backend := map[string]int{}
	var solverCPU, maxS float64
	nClaimed, nDischarged := 0, 0
	var undecided, knownLines, violLines []string
	lostLocked := 0
	var samples []any
	violations := 0
	unlockedReplays := 0
	unlockedBudget := 3
	if *tier == "thorough" {
		unlockedBudget = 40
	}
	replayDir := filepath.Join(*verif, "replays")
	if *noEvidence {
		// selftest / seed runs against scratch copies: keep their replay files out of the committed directory
		replayDir = filepath.Join(*verif, ".work", "replays")
	}
	for _, b := range order {
		g := groups[b]
		for _, o := range g.insts {
			solverCPU += o.Seconds
			if o.Seconds > maxS {
				maxS = o.Seconds
			}
		}
		isLocked := locked[b]
		if isLocked {
			nClaimed += len(g.insts)
		}
		var bad []*Obligation
		for _, o := range g.insts {
			ok := (o.Cover && o.Status == "sat") || (!o.Cover && o.Status == "unsat")
			if ok {
				if isLocked {
					nDischarged++
					backend[o.Solver]++
				}
				continue
			}
			// failing instance
			var kf *knownFinding
			for _, k := range known {
				if k.matches(prop, o) {
					kf = k
				}
			}
			if kf != nil {
				line := fmt.Sprintf("KNOWN-FINDING: property=%s obligation=%s case=%s %s", prop, o.Base, kf.Case, kf.Text)
				if !contains(knownLines, line) {
					knownLines = append(knownLines, line)
				}
				if isLocked {
					nClaimed-- // listed separately, not part of the proved set
				}
				continue
			}
			if o.Cover {
				// vacuity: precondition unsatisfiable or undecided -> broken check, not a violation
				undecided = append(undecided, fmt.Sprintf("%s: cover query %s (precondition may be vacuous)", o.Name, o.Status))
				if isLocked {
					nClaimed--
				}
				continue
			}
			bad = append(bad, o)
		}
		if len(bad) == 0 {
			continue
		}
		// replay up to three failing instances, stop at the first confirmation;
		// obligations that were never proved get a limited replay budget
		var rp *replayResult
		var shown *Obligation
		maxTry := 3
		if !isLocked {
			if unlockedReplays >= unlockedBudget {
				maxTry = 0
			} else {
				maxTry = 1
				unlockedReplays++
			}
		}
		for k, o := range bad {
			if k >= maxTry {
				break
			}
			r := tryReplay(eng, o, replayDir, prop, *repo)
			if rp == nil || (r != nil && r.Confirmed) {
				rp, shown = r, o
			}
			if r != nil && r.Confirmed {
				break
			}
		}
		if shown == nil {
			shown = bad[0]
		}
		suffix := ""
		if len(bad) > 1 {
			suffix = fmt.Sprintf(" (+%d more failing cases of this obligation)", len(bad)-1)
		}
		if !isLocked && ((shown.Kind == "safety" && locked[shown.Func+".safety.complete"]) || (shown.Kind != "census" && shown.Kind != "engine" && !shown.Cover && locked[shown.Func+".all.complete"])) {
			// every safety obligation of this function was discharged on the baseline: a new one
			// that fails means the changed body can now panic where it could not before
			sat := false
			for _, o := range bad {
				if o.Status == "sat" {
					sat = true
				}
			}
			if sat {
				if rp == nil {
					for k, o := range bad {
						if k >= 3 {
							break
						}
						r := tryReplay(eng, o, replayDir, prop, *repo)
						if rp == nil || (r != nil && r.Confirmed) {
							rp, shown = r, o
						}
						if r != nil && r.Confirmed {
							break
						}
					}
				}
				violations++
				if rp != nil && rp.Confirmed {
					violLines = append(violLines, fmt.Sprintf("VIOLATION property=%s replay=%s obligation=%s (new in a function whose obligations of this kind were all discharged on the baseline) counterexample confirmed on the real code%s", prop, rp.Path, shown.Name, suffix))
				} else {
					path := writeNoInputReplay(replayDir, prop, shown, rp)
					violLines = append(violLines, fmt.Sprintf("VIOLATION property=%s replay=%s obligation=%s (new in a function whose obligations of this kind were all discharged on the baseline) solver=%s%s no-failing-input-found", prop, path, shown.Name, shown.Status, suffix))
				}
				continue
			}
		}
		if !isLocked && strings.HasSuffix(shown.Clause, ".callers") && shown.Status == "sat" {
			// a caller whitelist is a closed list in the contract (decided syntactically, no solver
			// involved): a call from a function that is not on it is new by nature, so it cannot
			// be in the baseline lock, and it is a violation of the named obligation
			violations++
			path := writeNoInputReplay(replayDir, prop, shown, rp)
			violLines = append(violLines, fmt.Sprintf("VIOLATION property=%s replay=%s obligation=%s caller not on the callee's whitelist%s no-failing-input-found", prop, path, shown.Name, suffix))
			continue
		}
		if !isLocked {
			// never proved on the baseline: only a confirmed replay makes it a violation
			if rp != nil && rp.Confirmed {
				violations++
				violLines = append(violLines, fmt.Sprintf("VIOLATION property=%s replay=%s obligation=%s (not in baseline lock) counterexample confirmed on the real code%s", prop, rp.Path, shown.Name, suffix))
			} else {
				extra := ""
				if shown.Kind == "census" && shown.Output != "" {
					extra = " [" + shown.Output + "]"
				}
				undecided = append(undecided, fmt.Sprintf("%s: %s (not in baseline lock)%s%s", shown.Name, shown.Status, suffix, extra))
			}
			continue
		}
		// locked obligation no longer discharged: violation
		violations++
		if rp != nil && rp.Confirmed {
			violLines = append(violLines, fmt.Sprintf("VIOLATION property=%s replay=%s obligation=%s counterexample confirmed on the real code%s", prop, rp.Path, shown.Name, suffix))
		} else {
			path := writeNoInputReplay(replayDir, prop, shown, rp)
			violLines = append(violLines, fmt.Sprintf("VIOLATION property=%s replay=%s obligation=%s solver=%s%s no-failing-input-found", prop, path, shown.Name, shown.Status, suffix))
		}
	}
	// locked obligations that were not generated at all
	var missing []string
	for b := range locked {
		if groups[b] == nil && !strings.HasSuffix(b, ".safety.complete") && !strings.HasSuffix(b, ".all.complete") && !(slowBase[b] && *tier != "thorough") {
			missing = append(missing, b)
		}
	}
	sort.Strings(missing)
	for _, m := range missing {
		undecided = append(undecided, m+": in baseline lock but not generated (function renamed/removed or engine limit)")
		lostLocked++
	}
	for _, r := range reps {
		if r.Err != "" {
			undecided = append(undecided, fmt.Sprintf("%s: %s", r.Func, r.Err))
		}
	}
	// bounded refutation (never part of the proof): when obligations of this
	// property are undecided, look for a concrete failing input with the
	// property's native harness, if there is one
	var boundedNote string
	harness := filepath.Join(*verif, "harness", prop+"_bounded_test.go")
	// (only when something that used to be proved can no longer be decided, or an
	// annotation lost its anchor - not for obligations that were never discharged)
	for _, u := range undecided {
		if strings.Contains(u, "annotation.unbound") || strings.Contains(u, "ENGINE-LIMIT") || strings.Contains(u, "engine") {
			lostLocked++
		}
	}
	if _, err := os.Stat(harness); err == nil && (lostLocked > 0 || *tier == "thorough") {
		out, herr := runHarness(harness, *repo, prop)
		switch {
		case strings.Contains(out, "BOUNDED-REFUTATION"):
			line := ""
			for _, l := range strings.Split(out, "\n") {
				if strings.HasPrefix(l, "BOUNDED-REFUTATION") {
					line = l
					break
				}
			}
			os.MkdirAll(replayDir, 0o755)
			path := filepath.Join(replayDir, prop+"-bounded-refutation.txt")
			os.WriteFile(path, []byte("property: "+prop+"\nfound by: bounded refutation harness "+harness+" (go test -overlay, real code)\nundecided obligations that triggered the search:\n  "+strings.Join(undecided, "\n  ")+"\n\n"+line+"\n\nfull output:\n"+out), 0o644)
			violations++
			violLines = append(violLines, fmt.Sprintf("VIOLATION property=%s replay=%s bounded refutation on the real code: %s", prop, path, strings.TrimPrefix(line, "BOUNDED-REFUTATION ")))
			boundedNote = "failing input found: " + line
		case herr != nil && !strings.Contains(out, "BOUNDED-OK") && !strings.Contains(out, "ok  "):
			boundedNote = "harness did not run: " + firstLines(out, 3)
		default:
			boundedNote = "no failing input within the bound (this is not a proof)"
		}
	}
	// samples: a few discharged obligations written out
	for _, b := range order {
		if len(samples) >= 5 {
			break
		}
		g := groups[b]
		if !locked[b] || len(g.fails) > 0 {
			continue
		}
		o := g.insts[len(g.insts)/2]
		if o.Cover {
			continue
		}
		samples = append(samples, map[string]any{"obligation": o.Name, "kind": o.Kind, "at": o.Pos, "goal": o.GoalText, "result": o.Status, "backend": o.Solver, "seconds": round3(o.Seconds)})
	}

	// 4. evidence
	var funcs []any
	abstr := map[string]int{}
	trustedUsed := map[string]bool{}
	for _, r := range reps {
		funcs = append(funcs, map[string]any{"func": r.Func, "file": r.File, "mode": r.Mode, "cases": r.Cases, "body_hash": r.BodyHash, "trusted": r.Trusted, "uses_contracts": r.UsedContracts})
		for k, v := range r.Abstracted {
			abstr[r.Func+": "+k] += v
		}
		for _, t := range r.UsedTrusted {
			trustedUsed[t] = true
		}
		if r.Trusted {
			trustedUsed[r.Func] = true
		}
	}
	var abstrL []string
	for k, v := range abstr {
		abstrL = append(abstrL, fmt.Sprintf("%s x%d", k, v))
	}
	sort.Strings(abstrL)
	assumptions := []string{
		"govc (VC generator: typed-AST symbolic execution, simplifier side conditions) is trusted",
		"SMT solvers z3 5.1.0 (z3-new), z3 4.8.12, cvc5 1.0.3: an unsat answer from one of them is accepted",
		"GOARCH=amd64: int/uint are 64-bit two's complement; mode bv uses exact bit-vector semantics, mode int adds no-overflow obligations",
		"slices are modelled as values (array, offset, len, cap): aliasing between distinct slice variables is not modelled",
	}
	for t := range trustedUsed {
		assumptions = append(assumptions, "trusted contract (assumed, body not verified): "+t)
	}
	for _, a := range eng.cf.Assumptions {
		assumptions = append(assumptions, a)
	}
	sort.Strings(assumptions[4:])
	ev := &evidence{PropertyID: prop, Tier: *tier, Seed: seed, Level: "proof", Violations: violations, Assumptions: assumptions}
	ev.Coverage = map[string]any{
		"obligations":              nClaimed,
		"discharged":               nDischarged,
		"checker_cmd":              fmt.Sprintf("/verif/bin/govc check -tier %s %s  (z3-new/z3/cvc5 portfolio, %ds per obligation)", *tier, prop, int(to.Seconds())),
		"trusted_base":             assumptions,
		"samples":                  samples,
		"functions_under_contract": funcs,
		"obligations_generated":    len(obls),
		"obligation_groups":        len(order),
		"discharged_by_backend":    backend,
		"solver_cpu_s":             round3(solverCPU),
		"solver_max_s":             round3(maxS),
		"generation_s":             round3(genS),
		"solve_wall_s":             round3(solveS),
		"undecided":                undecided,
		"known_findings":           knownLines,
		"abstracted_constructs":    abstrL,
		"bounded_refutation":       boundedNote,
		"slow_obligations_left_to_the_thorough_tier": nSlowSkipped,
		"rule":                     "one obligation per contract clause, loop-invariant step, call precondition and implicit Go safety condition, per case of the declared case split; an obligation counts only if it was discharged on the pinned tree (obligations.lock)",
	}
	ev.WallS = round3(time.Since(t0).Seconds())
	if nClaimed == 0 || nDischarged == 0 {
		fmt.Fprintf(os.Stderr, "govc: property %s has no discharged obligations (claimed %d) — broken check\n", prop, nClaimed)
		if !*noEvidence {
			writeEvidence(filepath.Join(*verif, "evidence", prop+".json"), ev)
		}
		for _, u := range undecided {
			fmt.Println("UNDECIDED", u)
		}
		return 2
	}
	if !*noEvidence {
		writeEvidence(filepath.Join(*verif, "evidence", prop+".json"), ev)
	}
	for _, l := range knownLines {
		fmt.Println(l)
	}
	for _, u := range undecided {
		fmt.Println("UNDECIDED", u)
	}
	for _, l := range violLines {
		fmt.Println(l)
	}
	fmt.Printf("property %s: %d/%d claimed obligations discharged, %d known findings, %d undecided, %d violations (gen %.1fs, solve %.1fs)\n",
		prop, nDischarged, nClaimed, len(knownLines), len(undecided), violations, genS, solveS)
	if violations > 0 {
		return 1
	}
	return 0
}

func round3(f float64) float64 { return float64(int(f*1000+0.5)) / 1000 }

func writeEvidence(path string, ev *evidence) {
	os.MkdirAll(filepath.Dir(path), 0o755)
	data, _ := json.MarshalIndent(ev, "", " ")
	os.WriteFile(path, append(data, '\n'), 0o644)
}

func writeLock(path, prop string, order []string, ok func(string) bool, old *lockFile) int {
	old.byProp[prop] = map[string]bool{}
	n := 0
	for _, b := range order {
		if ok(b) {
			old.byProp[prop][b] = true
			n++
		}
	}
	var props []string
	for p := range old.byProp {
		props = append(props, p)
	}
	sort.Strings(props)
	var sb strings.Builder
	sb.WriteString("# baseline: obligations discharged on the pinned tree (property, obligation base name)\n")
	for _, p := range props {
		var bs []string
		for b := range old.byProp[p] {
			bs = append(bs, b)
		}
		sort.Strings(bs)
		for _, b := range bs {
			fmt.Fprintf(&sb, "%s %s\n", p, b)
		}
	}
	if err := os.WriteFile(path, []byte(sb.String()), 0o644); err != nil {
		fmt.Fprintln(os.Stderr, err)
		return 2
	}
	fmt.Printf("relock %s: %d of %d obligation groups discharged and locked\n", prop, n, len(order))
	for _, b := range order {
		if !ok(b) {
			fmt.Println("  not locked:", b)
		}
	}
	return 0
}

func writeNoInputReplay(dir, prop string, o *Obligation, rp *replayResult) string {
	os.MkdirAll(dir, 0o755)
	path := filepath.Join(dir, fmt.Sprintf("%s-%s.txt", prop, sanitize(o.Name)))
	var sb strings.Builder
	fmt.Fprintf(&sb, "property: %s\nobligation: %s\nkind: %s\nat: %s\ncase: %s\ngoal: %s\nsolver result: %s (%s)\n", prop, o.Name, o.Kind, o.Pos, o.Case, o.GoalText, o.Status, o.Solver)
	fmt.Fprintf(&sb, "verdict: this obligation was discharged on the pinned tree and is no longer discharged; no failing input could be replayed\n")
	if len(o.Model) > 0 {
		sb.WriteString("solver model (inputs):\n")
		var ks []string
		for k := range o.Model {
			ks = append(ks, k)
		}
		sort.Strings(ks)
		for _, k := range ks {
			fmt.Fprintf(&sb, "  %s = %s\n", k, o.Model[k])
		}
	}
	if rp != nil {
		fmt.Fprintf(&sb, "replay attempt: %s\n%s\n", rp.Note, rp.Output)
	}
	fmt.Fprintf(&sb, "solver output:\n%s\n", o.Output)
	os.WriteFile(path, []byte(sb.String()), 0o644)
	return path
}

// runHarness runs a bounded-refutation harness (an in-package Go test file
// kept under /verif/harness) against the repository through an overlay.
func runHarness(harness, repo, prop string) (string, error) {
	dir, err := os.MkdirTemp("", "govc-harness")
	if err != nil {
		return "", err
	}
	defer os.RemoveAll(dir)
	ov := map[string]any{"Replace": map[string]string{filepath.Join(repo, "zz_govc_bounded_test.go"): harness}}
	data, _ := json.Marshal(ov)
	of := filepath.Join(dir, "overlay.json")
	os.WriteFile(of, data, 0o644)
	ctx, cancel := context.WithTimeout(context.Background(), 300*time.Second)
	defer cancel()
	cmd := exec.CommandContext(ctx, "go", "test", "-tags", "verif", "-overlay", of, "-vet=off", "-count=1", "-v", "-timeout", "240s", "-run", "^TestGovcBounded"+prop+"$", ".")
	cmd.Dir = repo
	cmd.Env = append(os.Environ(), "GOFLAGS=-mod=mod", "GOPROXY=off", "GOSUMDB=off", "GOTOOLCHAIN=local")
	var buf bytes.Buffer
	cmd.Stdout = &buf
	cmd.Stderr = &buf
	err = cmd.Run()
	var keep []string
	for _, l := range strings.Split(buf.String(), "\n") {
		if strings.Contains(l, " TRACE ") || strings.Contains(l, " DEBUG ") || strings.Contains(l, " INFO ") {
			continue
		}
		keep = append(keep, l)
	}
	out := strings.Join(keep, "\n")
	if len(out) > 8000 {
		out = out[:8000]
	}
	return out, err
}
