package main

import (
	"fmt"
	"go/ast"
	"go/token"
	"go/types"
	"math/big"
	"strings"
)

func (x *Exec) evalCall(st *State, e *ast.CallExpr) []*Value {
	if x.spec > 0 {
		return []*Value{x.evalSpecCall(st, e)}
	}
	// conversion?
	if tv, ok := x.eng.info.Types[e.Fun]; ok && tv.IsType() {
		v := x.eval(st, e.Args[0])
		return []*Value{x.convert(st, v, tv.Type, e)}
	}
	// builtin?
	if id, ok := unparen(e.Fun).(*ast.Ident); ok {
		if b, ok := x.eng.info.Uses[id].(*types.Builtin); ok {
			return x.evalBuiltin(st, e, b.Name())
		}
	}
	// static callee?
	var callee *types.Func
	var recvE ast.Expr
	switch f := unparen(e.Fun).(type) {
	case *ast.Ident:
		if fo, ok := x.eng.info.Uses[f].(*types.Func); ok {
			callee = fo
		}
	case *ast.SelectorExpr:
		if sel := x.eng.info.Selections[f]; sel != nil {
			if sel.Kind() == types.MethodVal {
				callee = sel.Obj().(*types.Func)
				recvE = f.X
			}
		} else if fo, ok := x.eng.info.Uses[f.Sel].(*types.Func); ok {
			callee = fo // pkg.Func
		}
	}
	if callee != nil {
		return x.callStatic(st, e, callee, recvE)
	}
	// dynamic call: func value
	fv := x.eval(st, e.Fun)
	var args []*Value
	for _, a := range e.Args {
		args = append(args, x.eval(st, a))
	}
	sig, _ := x.eng.info.TypeOf(e.Fun).Underlying().(*types.Signature)
	if fv.Fn != nil && x.inlineDepth < 6 {
		return x.inlineClosure(st, fv.Fn, args, sig)
	}
	// callback contract on a func-typed parameter?
	if id, ok := unparen(e.Fun).(*ast.Ident); ok {
		c := x.eng.cf.Contracts[x.frame().qual]
		if c == nil || c.Callbacks[id.Name] == nil {
			// inside a function literal of the function under verification:
			// its func-typed parameters are still those of the enclosing function
			c = x.eng.cf.Contracts[x.qual]
		}
		if c != nil {
			if cb := c.Callbacks[id.Name]; cb != nil {
				if len(cb.OneOf) > 0 {
					return x.applyOneOf(st, cb, sig, args, e)
				}
				return x.applyCallback(st, cb, sig, args, e)
			}
		}
	}
	if nt, ok := x.eng.info.TypeOf(e.Fun).(*types.Named); ok && nt.Obj().Pkg() != nil && nt.Obj().Pkg().Path() == "context" && nt.Obj().Name() == "CancelFunc" {
		// cancelling a context has no effect on the state modelled here
		x.note("context-cancel")
		return nil
	}
	x.note("dynamic-call:" + x.eng.srcText(e.Fun))
	x.havocHeap(st, "dynamic call", nil)
	return x.freshResults(st, sig, "dyn")
}

func unparen(e ast.Expr) ast.Expr {
	for {
		p, ok := e.(*ast.ParenExpr)
		if !ok {
			return e
		}
		e = p.X
	}
}

func (x *Exec) freshResults(st *State, sig *types.Signature, name string) []*Value {
	if sig == nil {
		return nil
	}
	var out []*Value
	for i := 0; i < sig.Results().Len(); i++ {
		v := x.freshValue(sig.Results().At(i).Type(), fmt.Sprintf("%s.r%d", name, i))
		x.assumeWellFormed(st, v)
		out = append(out, v)
	}
	return out
}

// ---------- builtins

func (x *Exec) evalBuiltin(st *State, e *ast.CallExpr, name string) []*Value {
	is := x.idxSort()
	intT := types.Typ[types.Int]
	switch name {
	case "len", "cap":
		v := x.eval(st, e.Args[0])
		t := x.eng.info.TypeOf(e.Args[0])
		switch kindOf(t) {
		case kSlice:
			return []*Value{scalarV(intT, v.L[name])}
		case kString:
			if v.L == nil {
				v = x.convertConst(v, types.Typ[types.String])
			}
			return []*Value{scalarV(intT, x.strLen(v.scalar()))}
		case kArray:
			return []*Value{scalarV(intT, x.b.Num(big.NewInt(t.Underlying().(*types.Array).Len()), is))}
		case kRef: // map or chan
			if u, ok := t.Underlying().(*types.Map); ok {
				n := x.b.App("map.len."+sanitize(mapKeyName(u)), is, x.mapDomOf(st, v, u))
				x.assume(st, x.b.Le(x.b.Num(big.NewInt(0), is), n, true))
				x.assume(st, x.b.Le(n, x.b.Num(new(big.Int).Lsh(big.NewInt(1), 48), is), true))
				return []*Value{scalarV(intT, n)}
			}
			if name == "cap" {
				return []*Value{scalarV(intT, x.b.App("chan.cap", is, v.scalar()))}
			}
			x.note("len-of-chan")
			n := x.b.Fresh("chanlen", is)
			x.assume(st, x.b.Le(x.b.Num(big.NewInt(0), is), n, true))
			return []*Value{scalarV(intT, n)}
		}
	case "append":
		return []*Value{x.evalAppend(st, e)}
	case "copy":
		return []*Value{x.evalCopy(st, e)}
	case "make":
		return []*Value{x.evalMake(st, e)}
	case "new":
		t := x.eng.info.TypeOf(e.Args[0])
		r := x.allocRef(st)
		z := x.zeroValue(t)
		if kindOf(t) == kStruct {
			x.storeStruct(st, r, t, z)
		} else {
			x.storeCell(st, r, t, z)
		}
		return []*Value{scalarV(types.NewPointer(t), r)}
	case "delete":
		m := x.eval(st, e.Args[0])
		u := x.eng.info.TypeOf(e.Args[0]).Underlying().(*types.Map)
		k := x.coerce(st, x.eval(st, e.Args[1]), u.Key())
		x.mapDelete(st, m, u, k)
		return nil
	case "panic":
		for _, a := range e.Args {
			x.eval(st, a)
		}
		if x.noSafety == 0 {
			var sp []string
			if c := x.eng.cf.Contracts[x.qual]; c != nil && contains(c.SafetyProps, "none") {
				sp = c.SafetyProps // function whose panics are outside every claimed property
			}
			x.oblige(st, "safety", fmt.Sprintf("safety.panic(%s)", x.eng.srcText(e)), x.b.False(), e.Pos(), sp)
		}
		x.assume(st, x.b.False())
		return nil
	case "min", "max":
		v := x.eval(st, e.Args[0])
		for _, a := range e.Args[1:] {
			w := x.eval(st, a)
			var c *Value
			if name == "min" {
				c = x.binary(st, token.LSS, v, w, nil, e)
			} else {
				c = x.binary(st, token.GTR, v, w, nil, e)
			}
			if v.L == nil && w.L != nil {
				v = x.convertConst(v, w.T)
			}
			if w.L == nil && v.L != nil {
				w = x.convertConst(w, v.T)
			}
			if c.L == nil {
				if c.C.String() != "true" {
					v = w
				}
				continue
			}
			v = x.iteV(c.scalar(), v, w)
		}
		return []*Value{v}
	case "print", "println":
		for _, a := range e.Args {
			x.eval(st, a)
		}
		return nil
	case "close":
		x.eval(st, e.Args[0])
		x.note("close-channel")
		return nil
	case "recover":
		return []*Value{x.zeroValue(types.Universe.Lookup("any").Type())}
	}
	x.fail("unsupported builtin %s", name)
	return []*Value{x.constInt(0)}
}

func (x *Exec) mapDomOf(st *State, m *Value, u *types.Map) *Term {
	ks, ok := x.mapKeySort(u.Key())
	if !ok {
		return x.b.Fresh("dom", ArraySort(IntSort, BoolSort))
	}
	return x.b.Select(x.mapDom(st, u, ks), m.scalar())
}

func (x *Exec) evalMake(st *State, e *ast.CallExpr) *Value {
	t := x.eng.info.TypeOf(e.Args[0])
	is := x.idxSort()
	zero := x.b.Num(big.NewInt(0), is)
	switch u := t.Underlying().(type) {
	case *types.Slice:
		n := x.toIndex(st, x.eval(st, e.Args[1]))
		c := n
		if len(e.Args) > 2 {
			c = x.toIndex(st, x.eval(st, e.Args[2]))
		}
		// Go panics for negative or huge sizes; huge = beyond 2^47 elements
		// (a conservative stand-in for "len out of range").
		lim := x.b.Num(new(big.Int).Lsh(big.NewInt(1), 50), is)
		x.safety(st, "makesize", e, x.b.And(x.b.Le(zero, n, true), x.b.Le(n, c, true), x.b.Le(c, lim, true)))
		v := x.zeroValue(t)
		v.L["len"], v.L["cap"], v.L["off"], v.L["nil"] = n, c, zero, x.b.False()
		_ = u
		return v
	case *types.Map:
		if len(e.Args) > 1 {
			x.eval(st, e.Args[1])
		}
		m := scalarV(t, x.allocRef(st))
		x.mapInitEmpty(st, m, u)
		return m
	case *types.Chan:
		// the capacity of a channel is fixed when it is made: chan.cap is a function of the (fresh) reference
		capT := x.b.Num(big.NewInt(0), x.idxSort())
		if len(e.Args) > 1 {
			capT = x.coerce(st, x.eval(st, e.Args[1]), types.Typ[types.Int]).scalar()
		}
		r := x.allocRef(st)
		x.assume(st, x.b.Eq(x.b.App("chan.cap", x.idxSort(), r), capT))
		return scalarV(t, r)
	}
	x.fail("unsupported make(%v)", t)
	return x.zeroValue(t)
}

// evalAppend models append exactly for the value-semantics slice: the result
// holds the old elements followed by the new ones. Whether the backing array is
// shared with the argument is not represented (slices are values here).
func (x *Exec) evalAppend(st *State, e *ast.CallExpr) *Value {
	is := x.idxSort()
	base := x.eval(st, e.Args[0])
	t := x.eng.info.TypeOf(e)
	sl := t.Underlying().(*types.Slice)
	base = x.coerce(st, base, t)
	one := x.b.Num(big.NewInt(1), is)
	if e.Ellipsis.IsValid() {
		src := x.eval(st, e.Args[1])
		if kindOf(src.T) == kString || src.L == nil {
			if src.L == nil {
				src = x.convertConst(src, types.Typ[types.String])
			}
			src = x.convert(st, src, types.NewSlice(types.Typ[types.Uint8]), e)
		}
		return x.appendSlice(st, base, src, sl)
	}
	out := base
	for _, a := range e.Args[1:] {
		ev := x.coerce(st, x.eval(st, a), sl.Elem())
		pos := x.b.Add(out.L["off"], out.L["len"])
		nv := x.storeElem(out, pos, ev)
		nl := x.b.Add(out.L["len"], one)
		nv.L["len"] = nl
		nv.L["cap"] = x.b.Ite(x.b.Le(nl, out.L["cap"], true), out.L["cap"], x.b.Fresh("cap", is))
		x.assume(st, x.b.Le(nl, nv.L["cap"], true))
		nv.L["nil"] = x.b.False()
		out = nv
	}
	return out
}

// appendSlice: result[i] = base[i] for i<len(base), src[i-len(base)] after.
// Encoded with a fresh array constrained by a quantified axiom, or by
// unrolling when len(src) is a small constant.
func (x *Exec) appendSlice(st *State, base, src *Value, sl *types.Slice) *Value {
	is := x.idxSort()
	zero := x.b.Num(big.NewInt(0), is)
	nl := x.b.Add(base.L["len"], src.L["len"])
	out := &Value{T: base.T, L: map[string]*Term{}}
	if src.L["len"].IsConst() && src.L["len"].Val.Cmp(big.NewInt(16)) <= 0 {
		out = base
		n := int(src.L["len"].Val.Int64())
		for i := 0; i < n; i++ {
			ev := x.selectElem(src, x.b.Add(src.L["off"], x.b.Num(big.NewInt(int64(i)), is)), sl.Elem())
			out = x.storeElem(out, x.b.Add(x.b.Add(base.L["off"], base.L["len"]), x.b.Num(big.NewInt(int64(i)), is)), ev)
		}
		out = &Value{T: base.T, L: copyLeaves(out.L)}
	} else {
		// fresh arrays with pointwise definition
		i := x.b.Var("i!app", is)
		for p, bt := range base.L {
			if p != "arr" && !strings.HasPrefix(p, "arr.") {
				continue
			}
			na := x.b.Fresh("app."+p, bt.Sort)
			out.L[p] = na
			inOld := x.b.And(x.b.Le(zero, i, true), x.b.Lt(i, base.L["len"], true))
			inNew := x.b.And(x.b.Le(base.L["len"], i, true), x.b.Lt(i, nl, true))
			rd := x.b.Select(na, i)
			oldv := x.b.Select(bt, x.b.Add(base.L["off"], i))
			newv := x.b.Select(src.L[p], x.b.Add(src.L["off"], x.b.Sub(i, base.L["len"])))
			body := x.b.And(x.b.Implies(inOld, x.b.Eq(rd, oldv)), x.b.Implies(inNew, x.b.Eq(rd, newv)))
			x.assume(st, x.b.Forall([]*Term{i}, body, []*Term{rd}))
		}
		out.L["off"] = zero
	}
	if _, ok := out.L["off"]; !ok {
		out.L["off"] = base.L["off"]
	}
	out.L["len"] = nl
	nc := x.b.Ite(x.b.Le(nl, base.L["cap"], true), base.L["cap"], x.b.Fresh("cap", is))
	if out.L["off"] == zero && base.L["off"] != zero {
		nc = x.b.Fresh("cap", is)
	}
	out.L["cap"] = nc
	x.assume(st, x.b.Le(nl, nc, true))
	out.L["nil"] = x.b.And(base.L["nil"], x.b.Eq(src.L["len"], zero))
	if x.mode == "int" {
		// lengths stay within int
	}
	return out
}

func copyLeaves(m map[string]*Term) map[string]*Term {
	o := make(map[string]*Term, len(m))
	for k, v := range m {
		o[k] = v
	}
	return o
}

func (x *Exec) evalCopy(st *State, e *ast.CallExpr) *Value {
	is := x.idxSort()
	zero := x.b.Num(big.NewInt(0), is)
	dst := x.eval(st, e.Args[0])
	src := x.eval(st, e.Args[1])
	if kindOf(src.T) == kString || src.L == nil {
		if src.L == nil {
			src = x.convertConst(src, types.Typ[types.String])
		}
		src = x.convert(st, src, types.NewSlice(types.Typ[types.Uint8]), e)
	}
	n := x.b.Ite(x.b.Lt(dst.L["len"], src.L["len"], true), dst.L["len"], src.L["len"])
	out := &Value{T: dst.T, L: copyLeaves(dst.L)}
	i := x.b.Var("i!cp", is)
	for p, dt := range dst.L {
		if p != "arr" && !strings.HasPrefix(p, "arr.") {
			continue
		}
		na := x.b.Fresh("cp."+p, dt.Sort)
		out.L[p] = na
		rel := x.b.Sub(i, dst.L["off"])
		in := x.b.And(x.b.Le(zero, rel, true), x.b.Lt(rel, n, true))
		rd := x.b.Select(na, i)
		body := x.b.Eq(rd, x.b.Ite(in, x.b.Select(src.L[p], x.b.Add(src.L["off"], rel)), x.b.Select(dt, i)))
		x.assume(st, x.b.Forall([]*Term{i}, body, []*Term{rd}))
	}
	x.assignTo(st, e.Args[0], out)
	return scalarV(types.Typ[types.Int], n)
}

// ---------- static calls

func (x *Exec) callIsPure(c *ast.CallExpr) bool {
	if tv, ok := x.eng.info.Types[c.Fun]; ok && tv.IsType() {
		return true
	}
	switch f := unparen(c.Fun).(type) {
	case *ast.Ident:
		if b, ok := x.eng.info.Uses[f].(*types.Builtin); ok {
			switch b.Name() {
			case "delete", "copy", "close":
				return b.Name() == "copy"
			}
			return true
		}
		if fo, ok := x.eng.info.Uses[f].(*types.Func); ok {
			return x.funcIsPure(fo)
		}
	case *ast.SelectorExpr:
		if sel := x.eng.info.Selections[f]; sel != nil && sel.Kind() == types.MethodVal {
			return x.funcIsPure(sel.Obj().(*types.Func))
		}
		if fo, ok := x.eng.info.Uses[f.Sel].(*types.Func); ok {
			return x.funcIsPure(fo)
		}
	}
	return false
}

func (x *Exec) funcIsPure(f *types.Func) bool {
	q := funcQual(f)
	if c := x.eng.cf.Contracts[q]; c != nil {
		return c.Pure
	}
	if isLibPure(q) {
		return true
	}
	return false
}

func isLibPure(q string) bool {
	for _, p := range []string{"strconv.", "strings.", "math.", "math/bits.", "fmt.Sprintf", "fmt.Sprint", "fmt.Errorf", "errors.", "bytes.", "unicode", "time.", "sort.", "encoding/binary.", "github.com/jimsnab/go-lane.", "math/rand.", "sync/atomic.Load", "math/big.", "reflect.", "encoding/json.", "encoding/hex.", "unicode/utf8.", "slices.", "maps."} {
		if strings.HasPrefix(q, p) {
			return true
		}
	}
	return false
}

func (x *Exec) isLocalVar(st *State, id *ast.Ident) bool {
	obj, ok := x.eng.info.Uses[id].(*types.Var)
	if !ok {
		return false
	}
	if _, taken := st.addr[obj]; taken {
		return false
	}
	return obj.Parent() != x.eng.pkg.Types.Scope()
}

func (x *Exec) callStatic(st *State, e *ast.CallExpr, callee *types.Func, recvE ast.Expr) []*Value {
	outs := x.callStatic1(st, e, callee, recvE)
	return outs
}

func (x *Exec) callStatic1(st *State, e *ast.CallExpr, callee *types.Func, recvE ast.Expr) (outs []*Value) {
	var copyBack func()
	defer func() {
		if copyBack != nil && x.failed == nil {
			copyBack()
		}
	}()
	q := funcQual(callee)
	sig := callee.Type().(*types.Signature)
	// evaluate receiver and arguments
	var recv *Value
	if recvE != nil {
		recv = x.eval(st, recvE)
		// auto address / deref to match receiver type
		if sig.Recv() != nil {
			rt := sig.Recv().Type()
			_, wantPtr := rt.Underlying().(*types.Pointer)
			_, havePtr := recv.T.Underlying().(*types.Pointer)
			if wantPtr && !havePtr {
				// method with pointer receiver called on addressable value:
				// copy-in / copy-out through a fresh cell (promoted methods walk
				// the embedded field path first)
				var path []string
				cur := recv
				if fsel, ok := unparen(e.Fun).(*ast.SelectorExpr); ok {
					if sel := x.eng.info.Selections[fsel]; sel != nil && len(sel.Index()) > 1 {
						for _, ix := range sel.Index()[:len(sel.Index())-1] {
							stt, ok := cur.T.Underlying().(*types.Struct)
							if !ok {
								break
							}
							f := stt.Field(ix)
							path = append(path, f.Name())
							cur = cur.sub(f.Name(), f.Type())
						}
					}
				}
				if id, ok := unparen(recvE).(*ast.Ident); ok && kindOf(cur.T) == kStruct && x.isLocalVar(st, id) {
					r := x.allocRef(st)
					x.storeStruct(st, r, cur.T, cur)
					ct := cur.T
					whole := recv
					copyBack = func() {
						nv := x.loadStruct(st, r, ct)
						if len(path) == 0 {
							x.assignTo(st, recvE, nv)
						} else {
							x.assignTo(st, recvE, whole.with(strings.Join(path, "."), nv))
						}
					}
					recv = scalarV(types.NewPointer(ct), r)
				} else {
					recv = x.addrOfValue(st, recvE, cur)
				}
			} else if !wantPtr && havePtr {
				x.checkNonNil(st, recvE, recv.scalar())
				pt := recv.T.Underlying().(*types.Pointer)
				if kindOf(pt.Elem()) == kStruct {
					recv = x.loadStruct(st, recv.scalar(), pt.Elem())
				} else {
					recv = x.loadCell(st, recv.scalar(), pt.Elem())
				}
			}
		}
	}
	args := x.evalArgs(st, e, sig)
	if x.failed != nil {
		return x.freshResults(st, sig, "failed")
	}
	// library models
	if vs, ok := x.libCall(st, q, recv, args, sig, e); ok {
		return vs
	}
	c := x.eng.cf.Contracts[q]
	fd := x.eng.funcs[q]
	if callee.Pkg() != x.eng.pkg.Types {
		fd = nil
	}
	if c != nil && !c.Inline {
		return x.applyContract(st, c, callee, recv, args, e)
	}
	if fd != nil && (x.eng.specFns[q] || (c != nil && c.Inline)) && x.inlineDepth < 12 {
		return x.inlineFunc(st, fd, callee, recv, args)
	}
	// unknown callee: havoc
	x.note("call-without-contract:" + q)
	if !x.funcIsPure(callee) {
		x.havocHeap(st, "call "+q, nil)
		for i, a := range args {
			if kindOf(a.T) == kSlice && i < len(e.Args) {
				post := &Value{T: a.T, L: copyLeaves(a.L)}
				for p, t := range post.L {
					if p == "arr" || strings.HasPrefix(p, "arr.") {
						post.L[p] = x.b.Fresh("hv."+p, t.Sort)
					}
				}
				x.writeBackSlice(st, e.Args[i], post)
			}
		}
	}
	return x.freshResults(st, sig, strTrimPkg(q))
}

func (x *Exec) addrOfValue(st *State, e ast.Expr, v *Value) *Value {
	if id, ok := unparen(e).(*ast.Ident); ok {
		if obj := x.eng.info.Uses[id]; obj != nil {
			if ref, ok := st.addr[obj]; ok {
				return scalarV(types.NewPointer(v.T), ref)
			}
		}
	}
	if sel, ok := unparen(e).(*ast.SelectorExpr); ok {
		if s := x.eng.info.Selections[sel]; s != nil && s.Kind() == types.FieldVal {
			bt := x.eng.info.TypeOf(sel.X)
			if p, ok := bt.Underlying().(*types.Pointer); ok {
				base := x.eval(st, sel.X)
				return scalarV(types.NewPointer(v.T), x.b.App("fieldaddr."+structName(p.Elem())+"."+sel.Sel.Name, RefSort, base.scalar()))
			}
		}
	}
	if id, ok := unparen(e).(*ast.Ident); ok {
		if obj, ok := x.eng.info.Uses[id].(*types.Var); ok && obj.Parent() == x.eng.pkg.Types.Scope() {
			return scalarV(types.NewPointer(v.T), x.b.Var("globaladdr."+id.Name, RefSort))
		}
	}
	x.note("implicit-address-of:" + x.eng.srcText(e))
	r := x.allocRef(st)
	if kindOf(v.T) == kStruct {
		x.storeStruct(st, r, v.T, v)
	} else {
		x.storeCell(st, r, v.T, v)
	}
	return scalarV(types.NewPointer(v.T), r)
}

func (x *Exec) evalArgs(st *State, e *ast.CallExpr, sig *types.Signature) []*Value {
	var args []*Value
	np := sig.Params().Len()
	if len(e.Args) == 1 && np > 1 {
		// f(g()) with multi-value g
		vs := x.evalMulti(st, e.Args[0])
		for i, v := range vs {
			if i < np {
				args = append(args, x.coerce(st, v, sig.Params().At(i).Type()))
			}
		}
		return args
	}
	for i, a := range e.Args {
		v := x.eval(st, a)
		if sig.Variadic() && i >= np-1 {
			if e.Ellipsis.IsValid() {
				args = append(args, x.coerce(st, v, sig.Params().At(np-1).Type()))
				continue
			}
			// collect variadic tail into a slice
			st2 := sig.Params().At(np - 1).Type().(*types.Slice)
			is := x.idxSort()
			tail := x.zeroValue(st2)
			tail.L["nil"] = x.b.False()
			tail.L["off"] = x.b.Num(big.NewInt(0), is)
			n := 0
			for j := i; j < len(e.Args); j++ {
				ev := v
				if j > i {
					ev = x.eval(st, e.Args[j])
				}
				tail = x.storeElem(tail, x.b.Num(big.NewInt(int64(n)), is), x.coerce(st, ev, st2.Elem()))
				n++
			}
			tail.L["len"] = x.b.Num(big.NewInt(int64(n)), is)
			tail.L["cap"] = tail.L["len"]
			args = append(args, tail)
			return args
		}
		args = append(args, x.coerce(st, v, sig.Params().At(i).Type()))
	}
	if sig.Variadic() && len(e.Args) < np {
		args = append(args, x.zeroValue(sig.Params().At(np-1).Type()))
	}
	return args
}

// inlineFunc executes the callee body in a fresh frame.
func (x *Exec) inlineFunc(st *State, fd *ast.FuncDecl, callee *types.Func, recv *Value, args []*Value) []*Value {
	sig := callee.Type().(*types.Signature)
	q := funcQual(callee)
	x.inlineDepth++
	defer func() { x.inlineDepth-- }()
	savedEnv := st.env
	st.env = map[types.Object]*Value{}
	for k, v := range savedEnv {
		st.env[k] = v
	}
	if fd.Recv != nil && len(fd.Recv.List) > 0 && len(fd.Recv.List[0].Names) > 0 && recv != nil {
		if obj := x.eng.info.Defs[fd.Recv.List[0].Names[0]]; obj != nil {
			st.env[obj] = recv
		}
	}
	i := 0
	for _, f := range fd.Type.Params.List {
		for _, n := range f.Names {
			if obj := x.eng.info.Defs[n]; obj != nil && i < len(args) {
				st.env[obj] = args[i]
			}
			i++
		}
		if len(f.Names) == 0 {
			i++
		}
	}
	fr := &fnFrame{fn: fd, sig: sig, qual: q}
	if fd.Type.Results != nil {
		k := 0
		for _, f := range fd.Type.Results.List {
			if len(f.Names) == 0 {
				rv := types.NewVar(fd.Pos(), x.eng.pkg.Types, fmt.Sprintf("ret!%d", k), x.eng.info.TypeOf(f.Type))
				fr.results = append(fr.results, rv)
				st.env[rv] = x.zeroValue(rv.Type())
				k++
				continue
			}
			for _, n := range f.Names {
				rv := x.eng.info.Defs[n].(*types.Var)
				fr.results = append(fr.results, rv)
				st.env[rv] = x.zeroValue(rv.Type())
				k++
			}
		}
	}
	spec := x.eng.specFns[q]
	if spec {
		x.noSafety++
	}
	x.frames = append(x.frames, fr)
	callerDefers := st.defers
	callerPC := append([]*Term{}, st.pc...)
	body := st.clone()
	body.defers = nil
	end := x.execBlock(body, fd.Body.List)
	if end != nil {
		fr.returns = append(fr.returns, end)
	}
	x.frames = x.frames[:len(x.frames)-1]
	if spec {
		x.noSafety--
	}
	// run defers on each exit, then merge
	var exits []*State
	for _, r := range fr.returns {
		r = x.runDefers(r, fr)
		exits = append(exits, r)
	}
	m := x.mergeAll(exits)
	if m == nil {
		// callee never returns (panics on all paths)
		x.assume(st, x.b.False())
		st.env = savedEnv
		return x.freshResults(st, sig, "noreturn")
	}
	var outs []*Value
	for _, rv := range fr.results {
		outs = append(outs, m.env[rv])
	}
	// restore caller env (callee locals dropped), keep heap/pc/globals
	st.defers = callerDefers
	if spec {
		// spec functions are total and effect-free: evaluating one does not
		// restrict the caller's paths
		st.pc = callerPC
	} else {
		st.pc = m.pc
	}
	st.heap = m.heap
	st.globals = m.globals
	st.alloc = m.alloc
	// caller-visible variables may have been changed only through closures; keep merged values for them
	newEnv := map[types.Object]*Value{}
	for k := range savedEnv {
		if v, ok := m.env[k]; ok {
			newEnv[k] = v
		} else {
			newEnv[k] = savedEnv[k]
		}
	}
	st.env = newEnv
	return outs
}

func (x *Exec) inlineClosure(st *State, cl *closure, args []*Value, sig *types.Signature) []*Value {
	x.inlineDepth++
	defer func() { x.inlineDepth-- }()
	lit := cl.lit
	i := 0
	for _, f := range lit.Type.Params.List {
		for _, n := range f.Names {
			if obj := x.eng.info.Defs[n]; obj != nil && i < len(args) {
				st.env[obj] = x.coerce(st, args[i], obj.Type())
			}
			i++
		}
		if len(f.Names) == 0 {
			i++
		}
	}
	fr := &fnFrame{sig: sig, qual: x.frame().qual + "$lit"}
	if lit.Type.Results != nil {
		k := 0
		for _, f := range lit.Type.Results.List {
			if len(f.Names) == 0 {
				rv := types.NewVar(lit.Pos(), x.eng.pkg.Types, fmt.Sprintf("ret!%d", k), x.eng.info.TypeOf(f.Type))
				fr.results = append(fr.results, rv)
				st.env[rv] = x.zeroValue(rv.Type())
				k++
				continue
			}
			for _, n := range f.Names {
				rv := x.eng.info.Defs[n].(*types.Var)
				fr.results = append(fr.results, rv)
				st.env[rv] = x.zeroValue(rv.Type())
				k++
			}
		}
	}
	x.frames = append(x.frames, fr)
	callerDefers := st.defers
	body := st.clone()
	body.defers = nil
	end := x.execBlock(body, lit.Body.List)
	if end != nil {
		fr.returns = append(fr.returns, end)
	}
	x.frames = x.frames[:len(x.frames)-1]
	var exits []*State
	for _, r := range fr.returns {
		exits = append(exits, x.runDefers(r, fr))
	}
	m := x.mergeAll(exits)
	if m == nil {
		x.assume(st, x.b.False())
		return x.freshResults(st, sig, "noreturn")
	}
	var outs []*Value
	for _, rv := range fr.results {
		outs = append(outs, m.env[rv])
	}
	*st = *m
	st.defers = callerDefers
	return outs
}

// runDefers executes the deferred calls registered on this state, LIFO.
func (x *Exec) runDefers(st *State, fr *fnFrame) *State {
	if st == nil {
		return nil
	}
	ds := st.defers
	st.defers = nil
	x.frames = append(x.frames, &fnFrame{qual: fr.qual + "$defer", sig: fr.sig, results: fr.results})
	for i := len(ds) - 1; i >= 0 && st != nil; i-- {
		d := ds[i]
		run := func(s *State) *State {
			if lit, ok := d.call.Fun.(*ast.FuncLit); ok {
				return x.execBlock(s, lit.Body.List)
			}
			x.evalMulti(s, d.call)
			if x.infeasible(s) {
				return nil
			}
			return s
		}
		if d.cond == nil {
			st = run(st)
			continue
		}
		yes := st.clone()
		x.assume(yes, d.cond)
		no := st
		x.assume(no, x.b.Not(d.cond))
		var ry *State
		if !x.infeasible(yes) {
			ry = run(yes)
		}
		if x.infeasible(no) {
			no = nil
		}
		st = x.mergeAll([]*State{ry, no})
		if st != nil {
			st.defers = nil
		}
	}
	x.frames = x.frames[:len(x.frames)-1]
	return st
}

// ---------- contracts at call sites

func resultNames(sig *types.Signature) []string {
	var ns []string
	n := sig.Results().Len()
	for i := 0; i < n; i++ {
		nm := sig.Results().At(i).Name()
		if nm == "" || nm == "_" {
			if n == 1 {
				nm = "result"
			} else {
				nm = fmt.Sprintf("result%d", i)
			}
		}
		ns = append(ns, nm)
	}
	return ns
}

// checkCallbackLit runs a function literal passed as a callback on fresh
// arguments and obliges what the callee's callback contract promises on its
// behalf: its preconditions may be assumed, its frame (pure / modifies) and its
// postconditions must hold. Safety obligations of the body are emitted as usual.
func (x *Exec) checkCallbackLit(st *State, c *Contract, q, pn string, cb *Contract, cl *closure, psig *types.Signature, at *ast.CallExpr) {
	probe := st.clone()
	probe.defers = nil
	// the callee may call back at any point of its own execution
	if !c.Pure {
		if len(c.Modifies) == 0 && len(c.Effects) == 0 && len(c.InstMods) == 0 && !c.Trusted {
			x.havocHeap(probe, "callback "+pn+" of "+q, nil)
		} else {
			x.havocModifies(probe, c.Modifies)
			pre0 := probe.clone()
			for _, im := range c.InstMods {
				x.havocInstance(probe, pre0, im)
			}
		}
	}
	var cargs []*Value
	saved := probe.names
	probe.names = map[string]*Value{}
	for k, v := range saved {
		probe.names[k] = v
	}
	for i := 0; i < psig.Params().Len(); i++ {
		v := x.freshValue(psig.Params().At(i).Type(), fmt.Sprintf("cbarg%d", i))
		x.assumeWellFormed(probe, v)
		cargs = append(cargs, v)
		probe.names[fmt.Sprintf("arg%d", i)] = v
	}
	// old(...) in a callback precondition refers to the callee's entry state, which is the call site's
	x.oldStack = append(x.oldStack, st.clone())
	for _, r := range cb.Requires {
		x.assume(probe, x.evalClauseIn(probe, r, at.Pos(), ""))
	}
	x.oldStack = x.oldStack[:len(x.oldStack)-1]
	probe.names = saved
	pre := probe.clone()
	savedPrefix, savedProps := x.oblPrefix, x.oblProps
	x.oblPrefix = fmt.Sprintf("call(%s).callback.%s.", q, pn)
	x.oblProps = nil
	if len(cb.Props) > 0 {
		x.oblProps = cb.Props
	}
	outs := x.inlineClosure(probe, cl, cargs, psig)
	if cb.Pure || (cb.Modifies != nil && !contains(cb.Modifies, "*")) {
		fc := &Contract{Modifies: append([]string{"alloc"}, cb.Modifies...)}
		x.checkFrame(probe, pre, fc, at.Pos())
	}
	if len(cb.Ensures) > 0 {
		names := probe.names
		probe.names = map[string]*Value{}
		for k, v := range names {
			probe.names[k] = v
		}
		for i, v := range cargs {
			probe.names[fmt.Sprintf("arg%d", i)] = v
		}
		for i, n := range resultNames(psig) {
			if i < len(outs) {
				probe.names[n] = outs[i]
			}
		}
		x.oldStack = append(x.oldStack, pre)
		for _, en := range cb.Ensures {
			x.skolem = true
			g := x.evalClauseIn(probe, en, at.Pos(), "")
			x.skolem = false
			x.oblige(probe, "post", en.Name, g, at.Pos(), en.Props)
		}
		x.oldStack = x.oldStack[:len(x.oldStack)-1]
	}
	x.oblPrefix, x.oblProps = savedPrefix, savedProps
}

func (x *Exec) bindCallee(st *State, callee *types.Func, recv *Value, args []*Value) map[string]*Value {
	sig := callee.Type().(*types.Signature)
	names := map[string]*Value{}
	if r := sig.Recv(); r != nil && recv != nil {
		names[r.Name()] = recv
	}
	for i := 0; i < sig.Params().Len() && i < len(args); i++ {
		names[sig.Params().At(i).Name()] = args[i]
	}
	return names
}

func (x *Exec) applyContract(st *State, c *Contract, callee *types.Func, recv *Value, args []*Value, at *ast.CallExpr) []*Value {
	sig := callee.Type().(*types.Signature)
	q := funcQual(callee)
	x.usedContracts[q] = true
	if c.Trusted {
		x.usedTrusted[q] = true
	}
	saved := st.names
	st.names = x.bindCallee(st, callee, recv, args)
	for k, v := range saved {
		if _, ok := st.names[k]; !ok && strings.HasPrefix(k, "$") {
			st.names[k] = v
		}
	}
	calleeFd := x.eng.funcs[q]
	specPos := token.NoPos
	if calleeFd != nil {
		specPos = calleeFd.Body.Lbrace + 1
	}
	// 0. caller whitelist
	if c.Callers != nil && x.noSafety == 0 {
		caller := x.frame().qual
		ok := false
		for _, w := range c.Callers {
			if w == caller || "dataStoreCommand."+w == caller || "dataStore."+w == caller {
				ok = true
			}
		}
		x.oblige(st, "call-pre", fmt.Sprintf("call(%s).callers", q), x.b.Bool(ok), at.Pos(), c.CallersProps)
	}
	// 0b. function-valued arguments for parameters declared "callback P oneof ..."
	for pn, cb := range c.Callbacks {
		if len(cb.OneOf) == 0 || at == nil {
			continue
		}
		ok := false
		for i := 0; i < sig.Params().Len() && i < len(at.Args); i++ {
			if sig.Params().At(i).Name() != pn {
				continue
			}
			if sel, isSel := unparen(at.Args[i]).(*ast.SelectorExpr); isSel && contains(cb.OneOf, sel.Sel.Name) {
				if fsel, isF := unparen(at.Fun).(*ast.SelectorExpr); isF && x.eng.srcText(fsel.X) == x.eng.srcText(sel.X) {
					ok = true
				}
			}
		}
		x.oblige(st, "call-pre", fmt.Sprintf("call(%s).callback.%s", q, pn), x.b.Bool(ok), at.Pos(), nil)
	}
	// 0c. function literals passed for parameters that have a callback contract:
	// the literal's body is checked against that contract (the callee's proof
	// assumes it), in the state the callee may have produced by then
	for pn, cb := range c.Callbacks {
		if x.noSafety != 0 {
			continue
		}
		for i := 0; i < sig.Params().Len() && i < len(args); i++ {
			if sig.Params().At(i).Name() != pn || args[i] == nil || args[i].Fn == nil || args[i].Fn.lit == nil {
				continue
			}
			psig, ok := sig.Params().At(i).Type().Underlying().(*types.Signature)
			if !ok {
				continue
			}
			x.checkCallbackLit(st, c, q, pn, cb, args[i].Fn, psig, at)
		}
	}
	// 1. preconditions
	for _, r := range c.Requires {
		if clauseUsesFresh(c, r) {
			continue // per-case assumption of the callee's own proof (covered by case.cover)
		}
		if r.Free {
			continue // stated assumption on inputs (listed in the evidence), not checked at call sites
		}
		x.skolem = true
		g := x.evalClauseIn(st, r, specPos, q)
		x.skolem = false
		if x.noSafety == 0 {
			props := r.Props
			if props == nil {
				if cc := x.eng.cf.Contracts[x.qual]; cc != nil && cc.SafetyProps != nil {
					props = cc.SafetyProps
				}
			}
			x.oblige(st, "call-pre", fmt.Sprintf("call(%s).%s", q, r.Name), g, at.Pos(), props)
		}
		x.assume(st, g)
	}
	// 2. snapshot for old()
	pre := st.clone()
	// 3. frame
	if !c.Pure {
		if len(c.Modifies) == 0 && len(c.Effects) == 0 && len(c.InstMods) == 0 && !c.Trusted {
			// no declared frame: the callee may write anything
			x.havocHeap(st, "call "+q+" (no modifies clause)", nil)
		} else {
			x.havocModifies(st, c.Modifies)
			for _, im := range c.InstMods {
				x.havocInstance(st, pre, im)
			}
		}
		if !c.Trusted {
			// ghost state changed inside a verified callee (write hooks) must be
			// declared in its modifies clause (checked by its ghostframe
			// obligations); only those ghosts are forgotten here
			for name, gt := range x.eng.cf.Ghosts {
				if !c.modifiesGhost(name) {
					continue
				}
				t := x.eng.typeByName(gt)
				x.ghostGlobal(st, name, gt)
				st.globals["ghost."+name] = x.freshValue(t, "ghost."+name)
			}
		}
	}
	// 3b. slice parameters written by the callee: fresh contents after the call
	type wb struct {
		idx int
		val *Value
	}
	var writeBacks []wb
	for i := 0; i < sig.Params().Len() && i < len(args); i++ {
		pn := sig.Params().At(i).Name()
		if !contains(c.Writes, pn) || kindOf(args[i].T) != kSlice {
			continue
		}
		post := &Value{T: args[i].T, L: copyLeaves(args[i].L)}
		for p, t := range post.L {
			if p == "arr" || strings.HasPrefix(p, "arr.") {
				post.L[p] = x.b.Fresh("w."+pn+"."+p, t.Sort)
			}
		}
		pre.names["old$"+pn] = args[i]
		st.names[pn] = post
		writeBacks = append(writeBacks, wb{i, post})
	}
	// 4. results
	outs := x.freshResults(st, sig, strTrimPkg(q))
	for i, n := range resultNames(sig) {
		st.names[n] = outs[i]
	}
	// 4b. effects (may mention the results and old())
	x.oldStack = append(x.oldStack, pre)
	for _, ef := range c.Effects {
		x.applyEffect(st, st, ef, specPos, q)
	}
	x.oldStack = x.oldStack[:len(x.oldStack)-1]
	// 5. assume postconditions
	x.oldStack = append(x.oldStack, pre)
	for _, en := range c.Ensures {
		if en.Internal || clauseUsesFresh(c, en) {
			continue
		}
		if en.quantified() {
			// quantified callee facts are assumed only on request ("use callee.clause")
			cc := x.eng.cf.Contracts[x.frame().qual]
			if cc == nil {
				cc = x.contract
			}
			if cc == nil || !cc.usesClause(q, en.Name) {
				continue
			}
		}
		g := x.evalClauseIn(st, en, specPos, q)
		x.assume(st, g)
	}
	x.oldStack = x.oldStack[:len(x.oldStack)-1]
	st.names = saved
	for _, w := range writeBacks {
		if w.idx < len(at.Args) {
			x.writeBackSlice(st, at.Args[w.idx], w.val)
		}
	}
	return outs
}

// writeBackSlice stores the post-call contents of a slice argument into the
// caller's variable (slices are values in this model).
func (x *Exec) writeBackSlice(st *State, arg ast.Expr, post *Value) {
	switch a := unparen(arg).(type) {
	case *ast.Ident:
		if obj := x.eng.info.Uses[a]; obj != nil {
			if cur, ok := st.env[obj]; ok && kindOf(cur.T) == kSlice {
				nv := &Value{T: cur.T, L: copyLeaves(cur.L)}
				for p, t := range post.L {
					if p == "arr" || strings.HasPrefix(p, "arr.") {
						nv.L[p] = t
					}
				}
				st.env[obj] = nv
				return
			}
		}
	}
	x.note("slice-argument-written-by-callee-not-tracked:" + x.eng.srcText(arg))
}

// instTarget resolves an instance-level modifies entry in state `in` (where the
// callee's parameter names are bound): the object reference, its struct type
// and the field type.
func (x *Exec) instTarget(in *State, im *InstMod) (ref *Term, structT types.Type, ft types.Type, ok bool) {
	x.spec++
	x.noGuard++
	bv := x.eval(in, im.Base)
	x.noGuard--
	x.spec--
	if x.failed != nil || bv == nil || bv.T == nil {
		return nil, nil, nil, false
	}
	p, isP := bv.T.Underlying().(*types.Pointer)
	if !isP {
		x.fail("modifies %s: base is not a pointer", im.Src)
		return nil, nil, nil, false
	}
	ft = x.fieldType(p.Elem(), im.Field)
	if ft == nil {
		x.fail("modifies %s: no such field", im.Src)
		return nil, nil, nil, false
	}
	return bv.scalar(), p.Elem(), ft, true
}

// havocInstance forgets one field of one object (instance-level frame).
func (x *Exec) havocInstance(st, pre *State, im *InstMod) {
	ref, structT, ft, ok := x.instTarget(pre, im)
	if !ok {
		return
	}
	sn := structName(structT)
	for _, l := range x.leavesOf(ft) {
		key := sn + "." + join(im.Field, l.path)
		if x.isImmutableKey(key) {
			continue
		}
		st.heap[key] = x.b.Store(x.heapArr(st, key, l.sort), ref, x.b.Fresh("hv."+key, l.sort))
	}
}

func (x *Exec) havocModifies(st *State, mods []string) {
	if len(mods) == 0 {
		return // default frame: nothing (effects only)
	}
	all := false
	for _, m := range mods {
		if m == "*" || m == "heap" {
			all = true
		}
	}
	if all {
		x.havocHeap(st, "modifies *", func(k string) bool { return strings.HasPrefix(k, "ghost.") })
		return
	}
	match := func(k string) bool {
		for _, m := range mods {
			if m == k {
				return true
			}
		}
		if x.isImmutableKey(k) || x.isStableKey(k) {
			// only an exact mention havocs a stable/immutable field
			return false
		}
		for _, m := range mods {
			if strings.HasSuffix(m, ".*") && strings.HasPrefix(k, m[:len(m)-1]) {
				return true
			}
			if strings.HasPrefix(k, m+".") || (m == "map" && strings.HasPrefix(k, "map<")) {
				return true
			}
		}
		return false
	}
	// make sure named arrays exist so that the havoc is visible
	for k, a := range st.heap {
		if match(k) {
			st.heap[k] = x.b.Fresh("H."+k, a.Sort)
		}
	}
	for k, g := range st.globals {
		if match("global." + k) {
			st.globals[k] = x.freshValue(g.T, "g."+k)
		}
	}
	fi := &frameInfo{heapKeys: map[string]bool{}}
	for _, m := range mods {
		fi.heapKeys[strings.TrimSuffix(m, ".*")] = true
	}
	x.havocId++
	st.pending = append(st.pending, &pendingHavoc{x.havocId, fi})
	if contains(mods, "alloc") {
		na := x.b.Fresh("alloc", IntSort)
		x.assume(st, x.b.Le(st.alloc, na, true))
		st.alloc = na
	}
}

func contains(xs []string, s string) bool {
	for _, v := range xs {
		if v == s {
			return true
		}
	}
	return false
}

func (x *Exec) applyEffect(st, pre *State, ef *Effect, pos token.Pos, q string) {
	if ef.BulkKey != "" {
		x.applyBulk(st, ef, pos)
		return
	}
	x.spec++
	x.specPos = pos
	rhs := x.eval(pre, ef.RHS)
	var cond *Term
	if ef.Cond != nil {
		cond = x.evalCond(pre, ef.Cond)
	}
	x.spec--
	x.specAssign(st, pre, ef.LHS, rhs, cond)
}

// applyOneOf: a call through a func-typed parameter whose argument is known
// (checked at the call sites of this function) to be one of a few methods of
// the receiver: all their preconditions are demanded, the union of their
// frames is forgotten and the postconditions they share (same text) are
// assumed.
func (x *Exec) applyOneOf(st *State, cb *Contract, sig *types.Signature, args []*Value, at *ast.CallExpr) []*Value {
	fd := x.eng.funcs[x.frame().qual]
	var recv *Value
	var rtype string
	if fd != nil && fd.Recv != nil && len(fd.Recv.List) == 1 && len(fd.Recv.List[0].Names) == 1 {
		if obj := x.eng.info.Defs[fd.Recv.List[0].Names[0]]; obj != nil {
			recv = st.env[obj]
			rtype = structName(derefT(obj.Type()))
		}
	}
	if recv == nil {
		x.fail("callback oneof: enclosing function has no receiver")
		return x.freshResults(st, sig, "cb")
	}
	var cs []*Contract
	var first *types.Func
	for _, n := range cb.OneOf {
		q := rtype + "." + n
		c := x.eng.cf.Contracts[q]
		fo := x.eng.fobj[q]
		if c == nil || fo == nil {
			x.fail("callback oneof: no contract for %s", q)
			return x.freshResults(st, sig, "cb")
		}
		if first == nil {
			first = fo
		}
		cs = append(cs, c)
	}
	syn := &Contract{Func: cb.Func, Loops: map[int]*LoopSpec{}, Mode: cb.Mode, Modifies: []string{}}
	seenReq := map[string]bool{}
	for _, c := range cs {
		for _, r := range c.Requires {
			if r.Free || seenReq[r.Src] {
				continue
			}
			seenReq[r.Src] = true
			syn.Requires = append(syn.Requires, r)
		}
		syn.Modifies = append(syn.Modifies, c.Modifies...)
		syn.InstMods = append(syn.InstMods, c.InstMods...)
		if len(c.Modifies) == 0 && len(c.InstMods) == 0 && !c.Pure {
			syn.Modifies = append(syn.Modifies, "*")
		}
	}
	for _, en := range cs[0].Ensures {
		if en.Internal {
			continue
		}
		common := true
		for _, c := range cs[1:] {
			found := false
			for _, e2 := range c.Ensures {
				if e2.Src == en.Src && !e2.Internal {
					found = true
				}
			}
			if !found {
				common = false
			}
		}
		if common {
			syn.Ensures = append(syn.Ensures, en)
		}
	}
	return x.applyContract(st, syn, first, recv, args, at)
}

func (x *Exec) applyCallback(st *State, cb *Contract, sig *types.Signature, args []*Value, at *ast.CallExpr) []*Value {
	saved := st.names
	st.names = map[string]*Value{}
	for k, v := range saved {
		st.names[k] = v
	}
	for i := 0; i < sig.Params().Len() && i < len(args); i++ {
		st.names[fmt.Sprintf("arg%d", i)] = args[i]
	}
	for _, r := range cb.Requires {
		g := x.evalClauseIn(st, r, at.Pos(), "")
		x.oblige(st, "call-pre", fmt.Sprintf("callback(%s).%s", cb.Func, r.Name), g, at.Pos(), nil)
		x.assume(st, g)
	}
	pre := st.clone()
	if !cb.Pure {
		x.havocModifies(st, cb.Modifies)
	}
	outs := x.freshResults(st, sig, "cb")
	for i, n := range resultNames(sig) {
		st.names[n] = outs[i]
	}
	x.oldStack = append(x.oldStack, pre)
	for _, en := range cb.Ensures {
		x.assume(st, x.evalClauseIn(st, en, at.Pos(), ""))
	}
	x.oldStack = x.oldStack[:len(x.oldStack)-1]
	st.names = saved
	return outs
}

// applyBulk: heap[Struct.field] := lambda r. EXPR(r) (evaluated in the current
// state), introduced as a fresh array with its pointwise definition.
func (x *Exec) applyBulk(st *State, ef *Effect, pos token.Pos) {
	sn, fn, ok := strings.Cut(ef.BulkKey, ".")
	if !ok {
		x.fail("bulk: bad key %s", ef.BulkKey)
		return
	}
	stT := x.eng.typeByName(sn)
	ft := x.fieldType(stT, fn)
	if ft == nil {
		x.fail("bulk: no field %s", ef.BulkKey)
		return
	}
	lv := x.leavesOf(ft)
	if len(lv) != 1 || lv[0].path != "" {
		x.fail("bulk: field %s is not scalar", ef.BulkKey)
		return
	}
	x.nameCount["$q"]++
	r := x.b.Var(fmt.Sprintf("q!r!%d", x.nameCount["$q"]), RefSort)
	saved, had := st.names[ef.BulkVar]
	st.names[ef.BulkVar] = scalarV(types.NewPointer(stT), r)
	x.spec++
	x.specPos = pos
	mark := len(st.pc)
	x.noGuard++
	rhs := x.coerce(st, x.eval(st, ef.RHS), ft)
	x.noGuard--
	st.pc = st.pc[:mark]
	x.spec--
	if had {
		st.names[ef.BulkVar] = saved
	} else {
		delete(st.names, ef.BulkVar)
	}
	if rhs.L == nil {
		rhs = x.convertConst(rhs, ft)
	}
	old := x.heapArr(st, ef.BulkKey, lv[0].sort)
	na := x.b.Fresh("bulk."+ef.BulkKey, old.Sort)
	rd := x.b.Select(na, r)
	x.assume(st, x.b.Forall([]*Term{r}, x.b.Eq(rd, rhs.scalar()), []*Term{rd}))
	st.heap[ef.BulkKey] = na
}

// applyLemma: see GhostCall.
func (x *Exec) applyLemma(st *State, gc *GhostCall, pos token.Pos) {
	lc := x.eng.cf.Contracts[gc.Lemma]
	if lc == nil || !lc.Lemma {
		x.fail("ghostcall: %s is not a lemma", gc.Lemma)
		return
	}
	if len(gc.Args) != len(lc.LemmaVars) {
		x.fail("ghostcall: %s takes %d arguments", gc.Lemma, len(lc.LemmaVars))
		return
	}
	x.spec++
	savedPos := x.specPos
	x.specPos = pos
	var cond *Term
	if gc.Cond != nil {
		cond = x.evalCond(st, gc.Cond)
	}
	saved := st.names
	nn := map[string]*Value{}
	for k, v := range saved {
		nn[k] = v
	}
	var argv []*Value
	for _, a := range gc.Args {
		argv = append(argv, x.eval(st, a))
	}
	for i, qv := range lc.LemmaVars {
		nn[qv.Name] = x.coerce(st, argv[i], x.eng.typeByName(qv.Type))
	}
	x.spec--
	x.specPos = savedPos
	st.names = nn
	guard := func(t *Term) *Term {
		if cond == nil {
			return t
		}
		return x.b.Implies(cond, t)
	}
	for _, r := range lc.Requires {
		if clauseUsesFresh(lc, r) || r.Free {
			continue
		}
		x.skolem = true
		g := x.evalClauseIn(st, r, pos, gc.Lemma)
		x.skolem = false
		x.oblige(st, "call-pre", fmt.Sprintf("lemma(%s).%s", gc.Lemma, r.Name), guard(g), pos, r.Props)
		x.assume(st, guard(g))
	}
	for _, en := range lc.Ensures {
		if clauseUsesFresh(lc, en) {
			continue
		}
		x.assume(st, guard(x.evalClauseIn(st, en, pos, gc.Lemma)))
	}
	st.names = saved
}
