package main

// Forward symbolic executor over the typed AST.

import (
	"os"
	"fmt"
	"go/ast"
	"go/token"
	"go/types"
	"math/big"
	"sort"
	"strings"
)

type Obligation struct {
	LongBudget bool // clause marked slow: solved with the long budget
	Name   string
	Base   string
	Kind   string
	Func   string
	Clause string
	Props  []string
	Hyps   []*Term
	Goal   *Term
	Pos    string
	Case   string
	bank   *TermBank
	inputs []namedTerm
	axioms []*Term
	// result
	Status   string // unsat, sat, unknown, timeout, error
	Solver   string
	Seconds  float64
	Model    map[string]string
	Output   string
	Cover    bool // cover query: expected sat
	smt      string
	done     bool
	GoalText string
	smtKeep  string
	smtFull  string
	smtHyps  string
	smtQF    string // sliced query with every quantified hypothesis dropped (first, cheap attempt)
	logic    string
	members  []*Obligation
	batch    *Obligation
	inBatch  *Obligation
}

type namedTerm struct {
	Name string
	T    *Term
}

type State struct {
	pc      []*Term
	env     map[types.Object]*Value
	names   map[string]*Value
	heap    map[string]*Term
	globals map[string]*Value
	alloc   *Term
	defers  []*deferred
	pending []*pendingHavoc
	addr    map[types.Object]*Term // locals whose address was taken (moved to the heap)
	retPos  token.Pos              // position of the return statement this (exit) state left the function by
}

// pendingHavoc: a havoc event that also applies to heap arrays not yet
// materialised in the state (arrays are created on first access).
type pendingHavoc struct {
	id int
	fi *frameInfo
}

type deferred struct {
	call *ast.CallExpr
	cond *Term // nil: unconditional; else registered only on paths where cond holds
}

type ctlFrame struct {
	label  string
	breaks []*State
	conts  []*State
	isLoop bool
}

type fnFrame struct {
	returns  []*State
	results  []*types.Var
	fn       *ast.FuncDecl
	sig      *types.Signature
	ctl      []*ctlFrame
	defers   []*deferred
	qual     string
	resNames []string
}

type closure struct {
	lit *ast.FuncLit
}

type Exec struct {
	softEndPos token.Pos // end of the function body (scope of its top-level locals) while softNames is on
	softNames, softMiss bool // evaluating an "ensures internal" clause: an unresolved local only skips the clause at this exit
	madeVars      map[types.Object]*types.Var // hidden 'allocated here' flags of local slice variables
	visitedVars   []*types.Var // ghost visited sets of the enclosing range-over-map loops
	patAbs        bool
	splitEnds     map[*State][]*State
	patSelect     bool
	qmemo         map[*Term]bool
	eng           *Engine
	b             *TermBank
	mode          string
	qual          string
	fn            *ast.FuncDecl
	contract      *Contract
	obls          []*Obligation
	leafCache     map[string][]leaf
	leafByType    map[types.Type][]leaf
	caseLabel     string
	oldStack      []*State
	frames        []*fnFrame
	inlineDepth   int
	abstracted    map[string]int
	axioms        []*Term
	inputs        []namedTerm
	strLits       map[string]*Term
	spec          int // >0 while evaluating a contract expression
	nameCount     map[string]int
	noSafety      int
	pathCount     int
	failed        error
	usedContracts map[string]bool
	usedTrusted   map[string]bool
	checkProps    []string
	specPos       token.Pos
	ghostDepth    int
	quantDepth    int
	specSymLoop   bool // a probed spec-function inlining met a loop it could not unroll
	specProbe     bool
	oblPrefix     string   // name prefix for obligations of a callback literal under check
	oblProps      []string // their property tags when the callback contract names some

	guardMarks   []int
	useStrCat    bool
	useStrOf     bool
	useHashable  bool
	extraHavoc   []types.Object
	noGuard      int
	skolem       bool
	initKeys     map[string]bool
	havocId      int
	anchorHits   map[string]int
	loopTextHits map[string]int
	rawOuts      []*State
	guardCount   int
	touched      []touchedPtr
	pendingHavoc []string
	guardHook    func(st *State, structT types.Type, field string, ptr *Term, at ast.Node, write bool)
}

func (x *Exec) frame() *fnFrame { return x.frames[len(x.frames)-1] }

func (st *State) clone() *State {
	n := &State{alloc: st.alloc, retPos: st.retPos}
	n.pc = append([]*Term{}, st.pc...)
	n.env = make(map[types.Object]*Value, len(st.env))
	for k, v := range st.env {
		n.env[k] = v
	}
	n.names = make(map[string]*Value, len(st.names))
	for k, v := range st.names {
		n.names[k] = v
	}
	n.heap = make(map[string]*Term, len(st.heap))
	for k, v := range st.heap {
		n.heap[k] = v
	}
	n.globals = make(map[string]*Value, len(st.globals))
	for k, v := range st.globals {
		n.globals[k] = v
	}
	n.defers = append([]*deferred{}, st.defers...)
	n.pending = append([]*pendingHavoc{}, st.pending...)
	n.addr = make(map[types.Object]*Term, len(st.addr))
	for k, v := range st.addr {
		n.addr[k] = v
	}
	return n
}

func (x *Exec) assume(st *State, t *Term) {
	if t.IsTrue() {
		return
	}
	st.pc = append(st.pc, t)
}

func (x *Exec) pcTerm(st *State) *Term { return x.b.And(st.pc...) }

func (x *Exec) infeasible(st *State) bool {
	for _, t := range st.pc {
		if t.IsFalse() {
			return true
		}
	}
	// cheap syntactic contradiction check
	seen := map[*Term]bool{}
	for _, t := range st.pc {
		seen[t] = true
	}
	for _, t := range st.pc {
		if seen[x.b.Not(t)] {
			return true
		}
	}
	return false
}

// oblige records a proof obligation: under st.pc, goal must hold.
func (x *Exec) oblige(st *State, kind, clause string, goal *Term, pos token.Pos, props []string) {
	if goal.IsTrue() {
		// trivially discharged by the simplifier; still counted
	}
	if x.infeasible(st) {
		return
	}
	if x.oblPrefix != "" {
		clause = x.oblPrefix + clause
		if props == nil && x.oblProps != nil {
			props = x.oblProps
		}
	}
	base := x.qual + "." + clause
	x.nameCount[base+x.caseLabel]++
	name := base
	if n := x.nameCount[base+x.caseLabel]; n > 1 {
		name = fmt.Sprintf("%s~%d", base, n)
	}
	if x.caseLabel != "" {
		name += "[" + x.caseLabel + "]"
	}
	o := &Obligation{Name: name, Base: base, Kind: kind, Func: x.qual, Clause: clause, Goal: goal, Case: x.caseLabel, bank: x.b, Props: props}
	o.Hyps = append([]*Term{}, st.pc...)
	if pos.IsValid() {
		p := x.eng.fset.Position(pos)
		o.Pos = fmt.Sprintf("%s:%d", shortPath(p.Filename), p.Line)
	}
	x.obls = append(x.obls, o)
}

func (x *Exec) safety(st *State, what string, e ast.Node, goal *Term) {
	if x.noSafety > 0 || x.spec > 0 {
		return
	}
	if goal.IsTrue() {
		return
	}
	txt := ""
	if e != nil {
		txt = x.eng.srcText(e)
	}
	var pos token.Pos
	if e != nil {
		pos = e.Pos()
	}
	var sp []string
	if c := x.eng.cf.Contracts[x.qual]; c != nil && c.SafetyProps != nil {
		sp = c.SafetyProps
	}
	x.oblige(st, "safety", fmt.Sprintf("safety.%s(%s)", what, txt), goal, pos, sp)
	// after the check, execution continues only where it held
	x.assume(st, goal)
}

func (x *Exec) note(what string) {
	x.abstracted[what]++
}

// ---------- heap

func (x *Exec) heapArr(st *State, key string, elem *Sort) *Term {
	if a, ok := st.heap[key]; ok {
		return a
	}
	for i := len(st.pending) - 1; i >= 0; i-- {
		p := st.pending[i]
		stable := x.isImmutableKey(key) || x.isStableKey(key)
		if (p.fi.heapAll && !stable && (p.fi.keep == nil || !p.fi.keep(key))) || (!p.fi.heapAll && p.fi.matches(key) && (p.fi.heapKeys[key] || !stable)) {
			a := x.b.Var(fmt.Sprintf("Hh%d.%s", p.id, key), ArraySort(RefSort, elem))
			st.heap[key] = a
			return a
		}
	}
	a := x.b.Var("H0."+key, ArraySort(RefSort, elem))
	st.heap[key] = a
	// also record in old states so old(...) sees the same initial array
	for _, o := range x.oldStack {
		if _, ok := o.heap[key]; !ok && len(o.pending) == 0 {
			o.heap[key] = a
		}
	}
	return a
}

func structName(t types.Type) string {
	if n, ok := t.(*types.Named); ok {
		return n.Obj().Name()
	}
	return types.TypeString(t, func(*types.Package) string { return "" })
}

func (x *Exec) loadField(st *State, ptr *Term, structT types.Type, field string, ft types.Type) *Value {
	v := &Value{T: ft, L: map[string]*Term{}}
	sn := structName(structT)
	for _, l := range x.leavesOf(ft) {
		key := sn + "." + join(field, l.path)
		t := x.b.Select(x.heapArr(st, key, l.sort), ptr)
		v.L[l.path] = t
	}
	x.assumeWellFormed(st, v)
	return v
}

// assumeWellFormed adds the type invariants of a value read from memory:
// references are below the allocation counter, slice header sanity.
func (x *Exec) assumeWellFormed(st *State, v *Value) {
	if v.L == nil {
		return
	}
	switch kindOf(v.T) {
	case kInt, kTime:
		// mode int: mathematical integers carry their machine range
		t := v.L[""]
		if t == nil || t.Sort.Kind != SInt || t.IsConst() {
			return
		}
		w, signed := 64, true
		if kindOf(v.T) == kInt {
			w, signed = intInfo(v.T)
		}
		var lo, hi *big.Int
		if signed {
			lo = new(big.Int).Neg(new(big.Int).Lsh(big.NewInt(1), uint(w-1)))
			hi = new(big.Int).Sub(new(big.Int).Lsh(big.NewInt(1), uint(w-1)), big.NewInt(1))
		} else {
			lo = big.NewInt(0)
			hi = new(big.Int).Sub(new(big.Int).Lsh(big.NewInt(1), uint(w)), big.NewInt(1))
		}
		x.assume(st, x.b.And(x.b.Le(x.b.IntConst(lo), t, true), x.b.Le(t, x.b.IntConst(hi), true)))
	case kRef:
		t := v.L[""]
		if t.IsConst() {
			return
		}
		x.assume(st, x.b.And(x.b.Le(x.b.Int(0), t, true), x.b.Lt(t, st.alloc, true)))
	case kSlice:
		ln, cp, off := v.L["len"], v.L["cap"], v.L["off"]
		z := x.b.Num(big.NewInt(0), ln.Sort)
		cs := []*Term{x.b.Le(z, ln, true), x.b.Le(ln, cp, true)}
		if off != nil {
			cs = append(cs, x.b.Le(z, off, true))
			if x.mode == "bv" {
				mx := x.b.Num(new(big.Int).Lsh(big.NewInt(1), 48), ln.Sort)
				cs = append(cs, x.b.Le(off, mx, true), x.b.Le(cp, mx, true))
			}
		}
		cs = append(cs, x.b.Implies(v.L["nil"], x.b.Eq(cp, z)))
		x.assume(st, x.b.And(cs...))
	case kIface:
		x.assume(st, x.b.Le(x.b.Int(0), v.L["tag"], true))
	case kString:
		t := v.L[""]
		if t.Op == "var" || t.Op == "app" || t.Op == "select" {
			ln := x.strLen(t)
			x.assume(st, x.b.Le(x.b.Num(big.NewInt(0), ln.Sort), ln, true))
		}
	}
}

func (x *Exec) storeField(st *State, ptr *Term, structT types.Type, field string, val *Value) {
	sn := structName(structT)
	for p, t := range val.L {
		key := sn + "." + join(field, p)
		st.heap[key] = x.b.Store(x.heapArr(st, key, t.Sort), ptr, t)
	}
}

// pointer to non-struct cell
func (x *Exec) loadCell(st *State, ptr *Term, t types.Type) *Value {
	v := &Value{T: t, L: map[string]*Term{}}
	tn := "cell." + types.TypeString(t, nil)
	for _, l := range x.leavesOf(t) {
		v.L[l.path] = x.b.Select(x.heapArr(st, join(tn, l.path), l.sort), ptr)
	}
	x.assumeWellFormed(st, v)
	return v
}

func (x *Exec) storeCell(st *State, ptr *Term, t types.Type, val *Value) {
	tn := "cell." + types.TypeString(t, nil)
	for p, tm := range val.L {
		key := join(tn, p)
		st.heap[key] = x.b.Store(x.heapArr(st, key, tm.Sort), ptr, tm)
	}
}

func (x *Exec) allocRef(st *State) *Term {
	r := st.alloc
	st.alloc = x.b.Add(st.alloc, x.b.Int(1))
	return r
}

func (x *Exec) isImmutableKey(k string) bool {
	for _, im := range x.eng.cf.Immutable {
		if k == im || strings.HasPrefix(k, im+".") {
			return true
		}
	}
	return false
}

func (x *Exec) isStableKey(k string) bool {
	for _, im := range x.eng.cf.Stable {
		if k == im || strings.HasPrefix(k, im+".") {
			return true
		}
	}
	return false
}

func (x *Exec) havocHeap(st *State, why string, keep func(key string) bool) {
	if os.Getenv("GOVC_HAVOCDEBUG") != "" {
		fmt.Fprintf(os.Stderr, "havoc %s: %s\n", x.qual, why)
	}
	if keep == nil {
		keep = func(k string) bool { return x.isImmutableKey(k) || x.isStableKey(k) }
	} else {
		k0 := keep
		keep = func(k string) bool { return k0(k) || x.isImmutableKey(k) || x.isStableKey(k) }
	}
	for k, a := range st.heap {
		if keep != nil && keep(k) {
			continue
		}
		st.heap[k] = x.b.Fresh("H."+k, a.Sort)
	}
	x.havocId++
	if keep == nil {
		st.pending = append(st.pending, &pendingHavoc{x.havocId, &frameInfo{heapAll: true}})
	} else {
		st.pending = append(st.pending, &pendingHavoc{x.havocId, &frameInfo{heapAll: true, keep: keep}})
	}
	na := x.b.Fresh("alloc", IntSort)
	x.assume(st, x.b.Le(st.alloc, na, true))
	st.alloc = na
	for k, g := range st.globals {
		if strings.HasPrefix(k, "const.") || strings.HasPrefix(k, "ghost.") {
			continue
		}
		if keep != nil && keep("global."+k) {
			continue
		}
		st.globals[k] = x.freshValue(g.T, "g."+k)
	}
}

// ---------- merging

func (x *Exec) quantMemo() map[*Term]bool {
	if x.qmemo == nil {
		x.qmemo = map[*Term]bool{}
	}
	return x.qmemo
}

func (x *Exec) merge2(a, c *State) *State {
	if a == nil {
		return c
	}
	if c == nil {
		return a
	}
	k := 0
	for k < len(a.pc) && k < len(c.pc) && a.pc[k] == c.pc[k] {
		k++
	}
	ca := x.b.And(a.pc[k:]...)
	cc := x.b.And(c.pc[k:]...)
	n := &State{}
	if hasQuant(ca, x.quantMemo()) {
		// a quantified path condition would end up inside every merged value
		// (ite conditions) and make all later goals quantified: name the
		// choice with a fresh selector instead
		sel := x.b.Fresh("sel", BoolSort)
		n.pc = append(append([]*Term{}, a.pc[:k]...), x.b.Or(x.b.And(sel, ca), x.b.And(x.b.Not(sel), cc)))
		ca = sel
	} else {
		n.pc = append(append([]*Term{}, a.pc[:k]...), x.b.Or(ca, cc))
	}
	n.env = map[types.Object]*Value{}
	for o, va := range a.env {
		if vc, ok := c.env[o]; ok {
			if va == vc {
				n.env[o] = va
			} else {
				n.env[o] = x.mergeV(ca, va, vc)
			}
		} else if va.L != nil {
			// declared on one side only: unconstrained on the other
			n.env[o] = x.mergeV(ca, va, x.freshValue(va.T, "undef."+o.Name()))
		}
	}
	for o, vc := range c.env {
		if _, ok := a.env[o]; !ok && vc.L != nil {
			n.env[o] = x.mergeV(ca, x.freshValue(vc.T, "undef."+o.Name()), vc)
		}
	}
	n.names = map[string]*Value{}
	for o, va := range a.names {
		if vc, ok := c.names[o]; ok {
			if va == vc {
				n.names[o] = va
			} else {
				n.names[o] = x.mergeV(ca, va, vc)
			}
		}
	}
	n.heap = map[string]*Term{}
	for key, ha := range a.heap {
		if hc, ok := c.heap[key]; ok {
			n.heap[key] = x.b.Ite(ca, ha, hc)
		} else {
			n.heap[key] = x.b.Ite(ca, ha, x.heapArr(c, key, ha.Sort.Elem))
		}
	}
	for key, hc := range c.heap {
		if _, ok := n.heap[key]; !ok {
			n.heap[key] = x.b.Ite(ca, x.heapArr(a, key, hc.Sort.Elem), hc)
		}
	}
	n.globals = map[string]*Value{}
	initial := func(key string, like *Value) *Value {
		// value a global has in a state that never touched it
		if strings.HasPrefix(key, "const.") {
			return like
		}
		v := &Value{T: like.T, L: map[string]*Term{}}
		for p, t := range like.L {
			v.L[p] = x.b.Var(join("G0."+key, p), t.Sort)
		}
		return v
	}
	for k2, va := range a.globals {
		if vc, ok := c.globals[k2]; ok {
			n.globals[k2] = x.mergeV(ca, va, vc)
		} else {
			n.globals[k2] = x.mergeV(ca, va, initial(k2, va))
		}
	}
	for k2, vc := range c.globals {
		if _, ok := a.globals[k2]; !ok {
			n.globals[k2] = x.mergeV(ca, initial(k2, vc), vc)
		}
	}
	n.alloc = x.b.Ite(ca, a.alloc, c.alloc)
	n.addr = map[types.Object]*Term{}
	for k, v := range a.addr {
		if w, ok := c.addr[k]; ok {
			n.addr[k] = x.b.Ite(ca, v, w)
		} else {
			n.addr[k] = v
		}
	}
	for k, w := range c.addr {
		if _, ok := a.addr[k]; !ok {
			n.addr[k] = w
		}
	}
	n.pending = a.pending
	if len(c.pending) > len(a.pending) {
		n.pending = c.pending
	}
	// defer stacks: common prefix, then each side's extra entries guarded by
	// that side's path condition
	k2 := 0
	for k2 < len(a.defers) && k2 < len(c.defers) && a.defers[k2] == c.defers[k2] {
		k2++
	}
	n.defers = append([]*deferred{}, a.defers[:k2]...)
	for _, d := range a.defers[k2:] {
		cond := ca
		if d.cond != nil {
			cond = x.b.And(ca, d.cond)
		}
		n.defers = append(n.defers, &deferred{call: d.call, cond: cond})
	}
	for _, d := range c.defers[k2:] {
		cond := cc
		if d.cond != nil {
			cond = x.b.And(cc, d.cond)
		}
		n.defers = append(n.defers, &deferred{call: d.call, cond: cond})
	}
	return n
}

func (x *Exec) mergeV(c *Term, a, bv *Value) *Value {
	if a.L == nil || bv.L == nil {
		// untyped constants: materialise is not possible without a type; keep a
		if a.L == nil && bv.L != nil {
			a = x.convertConst(a, bv.T)
		} else if bv.L == nil && a.L != nil {
			bv = x.convertConst(bv, a.T)
		} else {
			return a
		}
	}
	if len(a.L) != len(bv.L) {
		x.note("merge-shape-mismatch")
		return a
	}
	return x.iteV(c, a, bv)
}

func (x *Exec) mergeAll(sts []*State) *State {
	var out *State
	for _, s := range sts {
		if s == nil || x.infeasible(s) {
			continue
		}
		out = x.merge2(out, s)
	}
	return out
}

// ---------- statements

func (x *Exec) execBlock(st *State, list []ast.Stmt) *State {
	for i, s := range list {
		if st == nil {
			return nil
		}
		x.rawOuts = nil
		st = x.execStmt(st, s)
		if x.rawOuts != nil && x.noMergeFor(s) {
			// path splitting: run the rest of the block once per branch outcome
			outs := x.rawOuts
			x.rawOuts = nil
			var ends []*State
			for _, o := range outs {
				if o == nil || x.infeasible(o) {
					continue
				}
				ends = append(ends, x.execBlock(o, list[i+1:]))
			}
			if fd := x.eng.funcs[x.qual]; fd != nil && fd.Body != nil && len(list) > 0 && len(fd.Body.List) == len(list) && fd.Body.List[0] == list[0] && len(x.frames) == 1 {
				// the block is the function body: every end of a split path is
				// a separate normal exit (postconditions are checked per exit)
				fr := x.frame()
				for _, e := range ends {
					if e != nil && !x.infeasible(e) {
						fr.returns = append(fr.returns, e)
					}
				}
				return nil
			}
			merged := x.mergeAll(ends)
			if merged != nil {
				// remember the unmerged ends so that an enclosing split
				// statement can keep the paths apart
				if x.splitEnds == nil {
					x.splitEnds = map[*State][]*State{}
				}
				x.splitEnds[merged] = x.flattenEnds(ends)
			}
			return merged
		}
	}
	x.rawOuts = nil
	return st
}

func (x *Exec) flattenEnds(ends []*State) []*State {
	var out []*State
	for _, e := range ends {
		if e == nil {
			continue
		}
		if sub, ok := x.splitEnds[e]; ok {
			out = append(out, sub...)
		} else {
			out = append(out, e)
		}
	}
	return out
}

// noMergeFor: the contract asked for path splitting ("nomerge") and s is a
// branching statement at the top level of the function body.
func (x *Exec) noMergeFor(s ast.Stmt) bool {
	c := x.eng.cf.Contracts[x.frame().qual]
	if c == nil || !c.NoMerge || x.inlineDepth > 0 || len(x.frame().ctl) > 0 {
		return false
	}
	switch s.(type) {
	case *ast.SwitchStmt, *ast.TypeSwitchStmt, *ast.IfStmt:
		return true
	}
	return false
}

func (x *Exec) execStmt(st *State, s ast.Stmt) *State {
	if st != nil && x.spec == 0 && x.noSafety == 0 {
		if c := x.eng.cf.Contracts[x.qual]; c != nil && len(c.GhostCalls) > 0 && !x.infeasible(st) {
			switch s.(type) {
			case *ast.AssignStmt, *ast.ExprStmt, *ast.IncDecStmt, *ast.DeclStmt, *ast.ReturnStmt, *ast.BranchStmt, *ast.SendStmt:
				txt := x.eng.srcText(s)
				for _, gc := range c.GhostCalls {
					if strings.HasPrefix(txt, gc.Anchor) {
						x.anchorHits["call:"+gc.Anchor]++
						x.applyLemma(st, gc, s.Pos())
					}
				}
			}
		}
	}
	if st != nil && x.spec == 0 && x.noSafety == 0 {
		if c := x.eng.cf.Contracts[x.qual]; c != nil && len(c.GhostBefore) > 0 && !x.infeasible(st) {
			switch s.(type) {
			case *ast.AssignStmt, *ast.ExprStmt, *ast.IncDecStmt, *ast.DeclStmt, *ast.ReturnStmt, *ast.BranchStmt, *ast.SendStmt, *ast.ForStmt, *ast.RangeStmt, *ast.IfStmt:
				txt := x.eng.srcText(s)
				for _, ga := range c.GhostBefore {
					if strings.HasPrefix(txt, ga.Anchor) {
						x.anchorHits["before:"+ga.Anchor]++
						x.applyEffect(st, st, ga.Eff, s.Pos(), x.qual)
					}
				}
			}
		}
	}
	if st != nil && x.spec == 0 && x.noSafety == 0 {
		c := x.eng.cf.Contracts[x.frame().qual]
		if c == nil {
			c = x.eng.cf.Contracts[x.qual] // inside a function literal of the function under verification
		}
		if c != nil && len(c.AssertBefore) > 0 && !x.infeasible(st) {
			switch s.(type) {
			case *ast.AssignStmt, *ast.ExprStmt, *ast.IncDecStmt, *ast.DeclStmt, *ast.ReturnStmt, *ast.BranchStmt, *ast.SendStmt, *ast.IfStmt:
				txt := x.eng.srcText(s)
				for _, aa := range c.AssertBefore {
					if strings.HasPrefix(txt, aa.Anchor) {
						x.anchorHits["assert:"+aa.Anchor]++
						es := st.clone()
						x.skolem = true
						g := x.evalClauseIn(es, aa.Cl, s.Pos(), x.frame().qual)
						x.skolem = false
						x.oblige(st, "assert", aa.Cl.Name, g, s.Pos(), aa.Cl.Props)
						x.assume(st, g)
					}
				}
			}
		}
	}
	out := x.execStmt1(st, s)
	if out != nil && x.spec == 0 && x.noSafety == 0 {
		c := x.eng.cf.Contracts[x.frame().qual]
		if c == nil {
			c = x.eng.cf.Contracts[x.qual]
		}
		if c != nil && len(c.AssertAfter) > 0 && !x.infeasible(out) {
			switch s.(type) {
			case *ast.AssignStmt, *ast.ExprStmt, *ast.IncDecStmt, *ast.DeclStmt, *ast.SendStmt, *ast.RangeStmt, *ast.ForStmt:
				// a loop statement as anchor: the clause is checked where the loop is left (exit or break)
				txt := x.eng.srcText(s)
				for _, aa := range c.AssertAfter {
					if strings.HasPrefix(txt, aa.Anchor) {
						x.anchorHits["assertafter:"+aa.Anchor]++
						es := out.clone()
						x.skolem = true
						g := x.evalClauseIn(es, aa.Cl, s.End(), x.frame().qual)
						x.skolem = false
						x.oblige(out, "assert", aa.Cl.Name, g, s.Pos(), aa.Cl.Props)
						x.assume(out, g)
					}
				}
			}
		}
		if c != nil && len(c.GhostAfter) > 0 {
			switch s.(type) {
			case *ast.AssignStmt, *ast.ExprStmt, *ast.IncDecStmt, *ast.DeclStmt, *ast.SendStmt:
				txt := x.eng.srcText(s)
				for _, ga := range c.GhostAfter {
					if strings.HasPrefix(txt, ga.Anchor) {
						x.anchorHits[ga.Anchor]++
						x.applyEffect(out, out, ga.Eff, s.End(), x.frame().qual)
					}
				}
			}
		}
	}
	return out
}

var traceOn = os.Getenv("GOVC_TRACE") != ""

func (x *Exec) execStmt1(st *State, s ast.Stmt) *State {
	if traceOn {
		txt := x.eng.srcText(s)
		if i := strings.IndexByte(txt, '\n'); i >= 0 {
			txt = txt[:i]
		}
		dead := st == nil || x.infeasible(st)
		fmt.Fprintf(os.Stderr, "TRACE %s dead=%v failed=%v | %s\n", x.eng.fset.Position(s.Pos()), dead, x.failed != nil, txt)
	}
	if st == nil || x.infeasible(st) {
		return nil
	}
	// a state that is executed further is no longer the plain merge of the
	// split paths recorded for it
	delete(x.splitEnds, st)
	switch s := s.(type) {
	case *ast.BlockStmt:
		return x.execBlock(st, s.List)
	case *ast.ExprStmt:
		x.evalMulti(st, s.X)
		if x.isPanicCall(s.X) {
			return nil
		}
		return st
	case *ast.AssignStmt:
		x.execAssign(st, s)
		return st
	case *ast.IncDecStmt:
		one := &ast.BasicLit{Kind: token.INT, Value: "1"}
		op := token.ADD
		if s.Tok == token.DEC {
			op = token.SUB
		}
		cur := x.eval(st, s.X)
		nv := x.binary(st, op, cur, x.constInt(1), cur.T, s)
		_ = one
		x.assignTo(st, s.X, nv)
		return st
	case *ast.DeclStmt:
		gd, ok := s.Decl.(*ast.GenDecl)
		if !ok {
			return st
		}
		for _, sp := range gd.Specs {
			vs, ok := sp.(*ast.ValueSpec)
			if !ok {
				continue
			}
			if len(vs.Values) == 1 && len(vs.Names) > 1 {
				vals := x.evalCommaOk(st, vs.Values[0])
				for i, n := range vs.Names {
					x.define(st, n, vals[i])
				}
				continue
			}
			for i, n := range vs.Names {
				obj := x.eng.info.Defs[n]
				if obj == nil {
					continue
				}
				if i < len(vs.Values) {
					v := x.eval(st, vs.Values[i])
					x.define(st, n, x.coerce(st, v, obj.Type()))
				} else {
					x.setLocal(st, obj, x.zeroValue(obj.Type()))
				}
			}
		}
		return st
	case *ast.ReturnStmt:
		return x.execReturn(st, s)
	case *ast.IfStmt:
		return x.execIf(st, s)
	case *ast.ForStmt:
		return x.execFor(st, s, "")
	case *ast.RangeStmt:
		return x.execRange(st, s, "")
	case *ast.SwitchStmt:
		return x.execSwitch(st, s)
	case *ast.TypeSwitchStmt:
		return x.execTypeSwitch(st, s)
	case *ast.BranchStmt:
		fr := x.frame()
		switch s.Tok {
		case token.BREAK:
			for i := len(fr.ctl) - 1; i >= 0; i-- {
				c := fr.ctl[i]
				if s.Label == nil || c.label == s.Label.Name {
					c.breaks = append(c.breaks, st)
					return nil
				}
			}
		case token.CONTINUE:
			for i := len(fr.ctl) - 1; i >= 0; i-- {
				c := fr.ctl[i]
				if c.isLoop && (s.Label == nil || c.label == s.Label.Name) {
					c.conts = append(c.conts, st)
					return nil
				}
			}
		}
		x.fail("unsupported branch statement %s", s.Tok)
		return nil
	case *ast.LabeledStmt:
		switch inner := s.Stmt.(type) {
		case *ast.ForStmt:
			return x.execFor(st, inner, s.Label.Name)
		case *ast.RangeStmt:
			return x.execRange(st, inner, s.Label.Name)
		}
		return x.execStmt(st, s.Stmt)
	case *ast.DeferStmt:
		st.defers = append(st.defers, &deferred{call: s.Call})
		return st
	case *ast.GoStmt:
		if lit, ok := s.Call.Fun.(*ast.FuncLit); ok {
			if c := x.eng.cf.Contracts[x.qual]; c != nil && c.GoInline {
				// the goroutine's own sequence of actions, run in place
				x.note("go-statement-inlined")
				var args []*Value
				for _, a := range s.Call.Args {
					args = append(args, x.eval(st, a))
				}
				if sig, ok := x.eng.info.TypeOf(lit).(*types.Signature); ok {
					x.inlineClosure(st, &closure{lit: lit}, args, sig)
				}
				return st
			}
		}
		x.note("go-statement")
		// evaluate arguments (they may panic), drop the call
		for _, a := range s.Call.Args {
			x.eval(st, a)
		}
		return st
	case *ast.SendStmt:
		x.note("channel-send")
		x.eval(st, s.Value)
		return st
	case *ast.SelectStmt:
		return x.execSelect(st, s)
	case *ast.EmptyStmt:
		return st
	}
	x.fail("unsupported statement %T", s)
	return nil
}

func (x *Exec) fail(format string, args ...any) {
	if x.failed == nil {
		x.failed = fmt.Errorf(format, args...)
	}
}

func (x *Exec) isPanicCall(e ast.Expr) bool {
	c, ok := e.(*ast.CallExpr)
	if !ok {
		return false
	}
	id, ok := c.Fun.(*ast.Ident)
	if !ok || id.Name != "panic" {
		return false
	}
	_, isB := x.eng.info.Uses[id].(*types.Builtin)
	return isB
}

func (x *Exec) define(st *State, id *ast.Ident, v *Value) {
	if id.Name == "_" {
		return
	}
	obj := x.eng.info.Defs[id]
	if obj == nil {
		obj = x.eng.info.Uses[id]
	}
	if obj == nil {
		return
	}
	x.setLocal(st, obj, x.coerce(st, v, obj.Type()))
}

// setLocal stores a local variable; variables whose address is taken live in
// a heap cell allocated at their first definition.
func (x *Exec) setLocal(st *State, obj types.Object, v *Value) {
	if x.eng.escapingLocals()[obj] && v.L != nil {
		r, ok := st.addr[obj]
		if !ok {
			r = x.allocRef(st)
			st.addr[obj] = r
		}
		if kindOf(v.T) == kStruct {
			x.storeStruct(st, r, v.T, v)
		} else {
			x.storeCell(st, r, v.T, v)
		}
		delete(st.env, obj)
		return
	}
	st.env[obj] = v
}

func (x *Exec) execAssign(st *State, s *ast.AssignStmt) {
	if s.Tok != token.ASSIGN && s.Tok != token.DEFINE {
		// op=
		var op token.Token
		switch s.Tok {
		case token.ADD_ASSIGN:
			op = token.ADD
		case token.SUB_ASSIGN:
			op = token.SUB
		case token.MUL_ASSIGN:
			op = token.MUL
		case token.QUO_ASSIGN:
			op = token.QUO
		case token.REM_ASSIGN:
			op = token.REM
		case token.AND_ASSIGN:
			op = token.AND
		case token.OR_ASSIGN:
			op = token.OR
		case token.XOR_ASSIGN:
			op = token.XOR
		case token.SHL_ASSIGN:
			op = token.SHL
		case token.SHR_ASSIGN:
			op = token.SHR
		case token.AND_NOT_ASSIGN:
			op = token.AND_NOT
		}
		cur := x.eval(st, s.Lhs[0])
		rhs := x.eval(st, s.Rhs[0])
		nv := x.binary(st, op, cur, rhs, cur.T, s)
		x.assignTo(st, s.Lhs[0], nv)
		return
	}
	var vals []*Value
	if len(s.Rhs) == 1 && len(s.Lhs) > 1 {
		vals = x.evalCommaOk(st, s.Rhs[0])
		if len(vals) != len(s.Lhs) {
			x.fail("assignment arity mismatch at %s", x.eng.srcText(s))
			return
		}
	} else {
		for _, r := range s.Rhs {
			vals = append(vals, x.eval(st, r))
		}
	}
	for i, l := range s.Lhs {
		x.noteMade(st, l, s, i)
		if id, ok := l.(*ast.Ident); ok && s.Tok == token.DEFINE {
			if x.eng.info.Defs[id] != nil {
				x.define(st, id, vals[i])
				continue
			}
		}
		x.assignTo(st, l, vals[i])
	}
}

// noteMade keeps, for every local slice variable, a hidden boolean "its current
// value was allocated by this function activation" (assigned directly from
// make or a composite literal); spec: madehere(v). Any other assignment clears
// it. The hidden variable lives in the environment, so merges and loop havoc
// treat it like the variable itself.
func (x *Exec) noteMade(st *State, l ast.Expr, s *ast.AssignStmt, i int) {
	id, ok := unparen(l).(*ast.Ident)
	if !ok || id.Name == "_" {
		return
	}
	obj := x.eng.info.Defs[id]
	if obj == nil {
		obj = x.eng.info.Uses[id]
	}
	v, isVar := obj.(*types.Var)
	if !isVar || v.IsField() || v.Parent() == x.eng.pkg.Types.Scope() {
		return
	}
	if _, isSl := v.Type().Underlying().(*types.Slice); !isSl {
		return
	}
	made := false
	if len(s.Rhs) == len(s.Lhs) {
		switch r := unparen(s.Rhs[i]).(type) {
		case *ast.CallExpr:
			if fid, ok := unparen(r.Fun).(*ast.Ident); ok && fid.Name == "make" {
				if _, isB := x.eng.info.Uses[fid].(*types.Builtin); isB {
					made = true
				}
			}
		case *ast.CompositeLit:
			made = true
		}
	}
	if x.madeVars == nil {
		x.madeVars = map[types.Object]*types.Var{}
	}
	hv := x.madeVars[v]
	if hv == nil {
		hv = types.NewVar(v.Pos(), x.eng.pkg.Types, "made$"+v.Name(), types.Typ[types.Bool])
		x.madeVars[v] = hv
	}
	st.env[hv] = scalarV(types.Typ[types.Bool], x.b.Bool(made))
}

// assignTo stores v into the lvalue l.
func (x *Exec) assignTo(st *State, l ast.Expr, v *Value) {
	switch l := l.(type) {
	case *ast.ParenExpr:
		x.assignTo(st, l.X, v)
	case *ast.Ident:
		if l.Name == "_" {
			return
		}
		obj := x.eng.info.Uses[l]
		if obj == nil {
			obj = x.eng.info.Defs[l]
		}
		if obj == nil {
			x.fail("assign to unresolved ident %s", l.Name)
			return
		}
		if _, ok := st.env[obj]; ok || obj.Parent() != x.eng.pkg.Types.Scope() {
			x.setLocal(st, obj, x.coerce(st, v, obj.Type()))
			return
		}
		// package-level variable
		x.guardGlobal(st, obj.Name(), l, true)
		st.globals[obj.Name()] = x.coerce(st, v, obj.Type())
	case *ast.SelectorExpr:
		sel := x.eng.info.Selections[l]
		if sel == nil {
			x.fail("assign to qualified identifier %s", x.eng.srcText(l))
			return
		}
		x.assignField(st, l.X, sel, v)
	case *ast.IndexExpr:
		bt := x.eng.info.TypeOf(l.X)
		switch u := bt.Underlying().(type) {
		case *types.Slice:
			base := x.eval(st, l.X)
			idx := x.toIndex(st, x.eval(st, l.Index))
			x.checkIndex(st, l, idx, base.L["len"])
			nb := x.storeElem(base, x.b.Add(base.L["off"], idx), x.coerce(st, v, u.Elem()))
			x.noteSliceWrite(st, l.X)
			x.assignTo(st, l.X, nb)
		case *types.Array:
			base := x.eval(st, l.X)
			idx := x.toIndex(st, x.eval(st, l.Index))
			n := x.b.Num(big.NewInt(u.Len()), idx.Sort)
			x.checkIndex(st, l, idx, n)
			nb := x.storeElem(base, idx, x.coerce(st, v, u.Elem()))
			x.assignTo(st, l.X, nb)
		case *types.Map:
			m := x.eval(st, l.X)
			k := x.coerce(st, x.eval(st, l.Index), u.Key())
			x.mapStore(st, m, u, k, x.coerce(st, v, u.Elem()), l)
		case *types.Pointer:
			// pointer to array
			x.note("index-through-pointer-to-array")
		default:
			x.fail("assign to index of %v", bt)
		}
	case *ast.StarExpr:
		p := x.eval(st, l.X)
		pt := x.eng.info.TypeOf(l.X).Underlying().(*types.Pointer)
		x.checkNonNil(st, l, p.scalar())
		if _, ok := pt.Elem().Underlying().(*types.Struct); ok {
			x.storeStruct(st, p.scalar(), pt.Elem(), x.coerce(st, v, pt.Elem()))
		} else {
			x.storeCell(st, p.scalar(), pt.Elem(), x.coerce(st, v, pt.Elem()))
		}
	default:
		x.fail("unsupported lvalue %T", l)
	}
}

// noteSliceWrite flags writes through slice variables that alias other
// storage (value-semantics slices are exact only for owned backing arrays).
func (x *Exec) noteSliceWrite(st *State, base ast.Expr) {}

func (x *Exec) storeStruct(st *State, ptr *Term, t types.Type, v *Value) {
	sn := structName(t)
	for p, tm := range v.L {
		key := sn + "." + p
		st.heap[key] = x.b.Store(x.heapArr(st, key, tm.Sort), ptr, tm)
	}
}

func (x *Exec) loadStruct(st *State, ptr *Term, t types.Type) *Value {
	v := &Value{T: t, L: map[string]*Term{}}
	sn := structName(t)
	for _, l := range x.leavesOf(t) {
		v.L[l.path] = x.b.Select(x.heapArr(st, sn+"."+l.path, l.sort), ptr)
	}
	return v
}

func (x *Exec) assignField(st *State, recvE ast.Expr, sel *types.Selection, v *Value) {
	// walk the selection path (embedded fields)
	recvT := x.eng.info.TypeOf(recvE)
	path := sel.Index()
	// resolve through implicit derefs
	cur := recvT
	var fieldPath []string
	isPtr := false
	var ptrTerm *Term
	var ptrStruct types.Type
	if p, ok := cur.Underlying().(*types.Pointer); ok {
		pv := x.eval(st, recvE)
		x.checkNonNil(st, recvE, pv.scalar())
		isPtr = true
		ptrTerm = pv.scalar()
		ptrStruct = p.Elem()
		cur = p.Elem()
	}
	for i, ix := range path {
		stt, ok := cur.Underlying().(*types.Struct)
		if !ok {
			x.fail("field path through non-struct %v", cur)
			return
		}
		f := stt.Field(ix)
		if i < len(path)-1 {
			if p, ok := f.Type().Underlying().(*types.Pointer); ok {
				// embedded pointer: load it and restart
				var pv *Value
				if isPtr {
					pv = x.loadField(st, ptrTerm, ptrStruct, join(strings.Join(fieldPath, "."), f.Name()), f.Type())
				} else {
					x.fail("embedded pointer in value struct")
					return
				}
				x.checkNonNil(st, recvE, pv.scalar())
				ptrTerm = pv.scalar()
				ptrStruct = p.Elem()
				cur = p.Elem()
				fieldPath = nil
				continue
			}
		}
		fieldPath = append(fieldPath, f.Name())
		cur = f.Type()
	}
	fp := strings.Join(fieldPath, ".")
	v = x.coerce(st, v, cur)
	if isPtr {
		x.guardWrite(st, ptrStruct, fp, ptrTerm, recvE)
		x.storeField(st, ptrTerm, ptrStruct, fp, v)
		return
	}
	// value struct: update in place
	base := x.eval(st, recvE)
	x.assignTo(st, recvE, base.with(fp, v))
}

func (x *Exec) execReturn(st *State, s *ast.ReturnStmt) *State {
	fr := x.frame()
	if len(s.Results) > 0 {
		var vals []*Value
		if len(s.Results) == 1 && len(fr.results) > 1 {
			vals = x.evalMulti(st, s.Results[0])
		} else {
			for _, r := range s.Results {
				vals = append(vals, x.eval(st, r))
			}
		}
		for i, rv := range fr.results {
			if i < len(vals) {
				st.env[rv] = x.coerce(st, vals[i], rv.Type())
			}
		}
	}
	if len(x.frames) == 1 {
		st.retPos = s.Pos()
	}
	fr.returns = append(fr.returns, st)
	return nil
}

func (x *Exec) execIf(st *State, s *ast.IfStmt) *State {
	if s.Init != nil {
		st = x.execStmt(st, s.Init)
		if st == nil {
			return nil
		}
	}
	c := x.evalCond(st, s.Cond)
	if c.IsTrue() {
		return x.execBlock(st, s.Body.List)
	}
	if c.IsFalse() {
		if s.Else != nil {
			return x.execStmt(st, s.Else)
		}
		return st
	}
	st2 := st.clone()
	x.assume(st, c)
	x.assume(st2, x.b.Not(c))
	a := x.execBlock(st, s.Body.List)
	var e *State
	if s.Else != nil {
		e = x.execStmt(st2, s.Else)
	} else {
		e = st2
	}
	x.rawOuts = x.flattenEnds([]*State{a, e})
	return x.mergeAll([]*State{a, e})
}

func (x *Exec) evalCond(st *State, e ast.Expr) *Term {
	v := x.eval(st, e)
	if v.L == nil {
		if v.C != nil {
			return x.b.Bool(v.C.String() == "true")
		}
		x.fail("condition is not boolean: %s", x.eng.srcText(e))
		return x.b.True()
	}
	return v.scalar()
}

func (x *Exec) execSwitch(st *State, s *ast.SwitchStmt) *State {
	if s.Init != nil {
		st = x.execStmt(st, s.Init)
		if st == nil {
			return nil
		}
	}
	var tag *Value
	if s.Tag != nil {
		tag = x.eval(st, s.Tag)
	}
	fr := x.frame()
	cf := &ctlFrame{}
	fr.ctl = append(fr.ctl, cf)
	var outs []*State
	rest := st
	var defaultBody []ast.Stmt
	hasDefault := false
	var fall *State
	for _, cc := range s.Body.List {
		clause := cc.(*ast.CaseClause)
		if clause.List == nil {
			hasDefault = true
			defaultBody = clause.Body
			continue
		}
		if rest == nil && fall == nil {
			break
		}
		var conds []*Term
		if rest != nil {
			for _, e := range clause.List {
				if tag != nil {
					v := x.eval(rest, e)
					conds = append(conds, x.compareEq(rest, tag, v, e))
				} else {
					conds = append(conds, x.evalCond(rest, e))
				}
			}
		}
		var taken *State
		if rest != nil {
			c := x.b.Or(conds...)
			taken = rest.clone()
			x.assume(taken, c)
			x.assume(rest, x.b.Not(c))
			if x.infeasible(rest) {
				rest = nil
			}
		}
		if fall != nil {
			taken = x.mergeAll([]*State{taken, fall})
			fall = nil
		}
		body := clause.Body
		ft := false
		if n := len(body); n > 0 {
			if b, ok := body[n-1].(*ast.BranchStmt); ok && b.Tok == token.FALLTHROUGH {
				ft = true
				body = body[:n-1]
			}
		}
		out := x.execBlock(taken, body)
		if ft {
			fall = out
		} else {
			outs = append(outs, out)
		}
	}
	if rest != nil {
		if hasDefault {
			outs = append(outs, x.execBlock(rest, defaultBody))
		} else {
			outs = append(outs, rest)
		}
	}
	if fall != nil {
		outs = append(outs, fall)
	}
	fr.ctl = fr.ctl[:len(fr.ctl)-1]
	outs = append(outs, cf.breaks...)
	x.rawOuts = outs
	return x.mergeAll(outs)
}

func (x *Exec) execTypeSwitch(st *State, s *ast.TypeSwitchStmt) *State {
	if s.Init != nil {
		st = x.execStmt(st, s.Init)
		if st == nil {
			return nil
		}
	}
	var subject ast.Expr
	var bindId *ast.Ident
	switch a := s.Assign.(type) {
	case *ast.ExprStmt:
		subject = a.X.(*ast.TypeAssertExpr).X
	case *ast.AssignStmt:
		subject = a.Rhs[0].(*ast.TypeAssertExpr).X
		bindId = a.Lhs[0].(*ast.Ident)
	}
	sv := x.eval(st, subject)
	fr := x.frame()
	cf := &ctlFrame{}
	fr.ctl = append(fr.ctl, cf)
	var outs []*State
	rest := st
	var defClause *ast.CaseClause
	for _, cc := range s.Body.List {
		clause := cc.(*ast.CaseClause)
		if clause.List == nil {
			defClause = clause
			continue
		}
		if rest == nil {
			break
		}
		var conds []*Term
		var single types.Type
		for _, te := range clause.List {
			tt := x.eng.info.TypeOf(te)
			if tt == nil || isNilType(tt) {
				conds = append(conds, x.b.Eq(sv.L["tag"], x.b.Int(0)))
				continue
			}
			conds = append(conds, x.hasDynType(st, sv, tt))
			single = tt
		}
		c := x.b.Or(conds...)
		taken := rest.clone()
		x.assume(taken, c)
		x.assume(rest, x.b.Not(c))
		if x.infeasible(rest) {
			rest = nil
		}
		if bindId != nil {
			if obj := x.eng.info.Implicits[clause]; obj != nil {
				if len(clause.List) == 1 && single != nil && !types.IsInterface(single) {
					taken.env[obj] = x.unbox(taken, sv, single)
				} else {
					taken.env[obj] = sv
				}
			}
		}
		outs = append(outs, x.execBlock(taken, clause.Body))
	}
	if rest != nil {
		if defClause != nil {
			if bindId != nil {
				if obj := x.eng.info.Implicits[defClause]; obj != nil {
					rest.env[obj] = sv
				}
			}
			outs = append(outs, x.execBlock(rest, defClause.Body))
		} else {
			outs = append(outs, rest)
		}
	}
	fr.ctl = fr.ctl[:len(fr.ctl)-1]
	outs = append(outs, cf.breaks...)
	x.rawOuts = outs
	return x.mergeAll(outs)
}

func isNilType(t types.Type) bool {
	b, ok := t.(*types.Basic)
	return ok && b.Kind() == types.UntypedNil
}

func (x *Exec) execSelect(st *State, s *ast.SelectStmt) *State {
	x.note("select-statement")
	fr := x.frame()
	cf := &ctlFrame{}
	fr.ctl = append(fr.ctl, cf)
	var outs []*State
	for _, cc := range s.Body.List {
		clause := cc.(*ast.CommClause)
		br := st.clone()
		// nondeterministic arm choice
		x.assume(br, x.b.Fresh("select.arm", BoolSort))
		switch c := clause.Comm.(type) {
		case *ast.AssignStmt:
			for i, l := range c.Lhs {
				id, ok := l.(*ast.Ident)
				if !ok {
					continue
				}
				obj := x.eng.info.Defs[id]
				if obj == nil {
					obj = x.eng.info.Uses[id]
				}
				if obj != nil {
					br.env[obj] = x.freshValue(obj.Type(), fmt.Sprintf("recv%d", i))
				}
			}
		}
		outs = append(outs, x.execBlock(br, clause.Body))
	}
	fr.ctl = fr.ctl[:len(fr.ctl)-1]
	outs = append(outs, cf.breaks...)
	return x.mergeAll(outs)
}

// ---------- loops

func (x *Exec) loopOrdinal(s ast.Stmt) int {
	fr := x.frame()
	for i, l := range x.eng.loopsOf(fr.qual) {
		if l == s {
			return i + 1
		}
	}
	return 0
}

func (x *Exec) loopSpec(s ast.Stmt) (*LoopSpec, int) {
	fr := x.frame()
	n := x.loopOrdinal(s)
	c := x.eng.cf.Contracts[fr.qual]
	if c == nil {
		return nil, n
	}
	if len(c.LoopsByText) > 0 {
		hdr := x.loopHeader(s)
		for _, h := range c.LoopTextOrder {
			if strings.HasPrefix(hdr, h) {
				x.loopTextHits[fr.qual+"|"+h]++
				return c.LoopsByText[h], n
			}
		}
	}
	return c.Loops[n], n
}

// loopHeader: source text of a loop statement up to its body.
func (x *Exec) loopHeader(s ast.Stmt) string {
	var body *ast.BlockStmt
	switch l := s.(type) {
	case *ast.ForStmt:
		body = l.Body
	case *ast.RangeStmt:
		body = l.Body
	}
	if body == nil {
		return ""
	}
	p1 := x.eng.fset.Position(s.Pos())
	p2 := x.eng.fset.Position(body.Lbrace)
	src := x.eng.srcs[p1.Filename]
	if src == nil || p2.Offset > len(src) {
		return ""
	}
	return strings.Join(strings.Fields(string(src[p1.Offset:p2.Offset])), " ")
}

// frameInfo: what a statement may write.
type frameInfo struct {
	elemOnly map[types.Object]bool // slice variables only written through s[i] = v
	objs     map[types.Object]bool
	heapAll  bool
	heapKeys map[string]bool // key prefixes ("Struct.field", "map<..>", "cell<..>")
	keep     func(string) bool
	// field writes p.f = v through a pointer variable p: key "Struct.f" -> variables.
	// instOnly holds the keys that are written in no other way.
	instW    map[string][]*types.Var
	instOnly map[string][]*types.Var
}

// assignedIn collects local objects assigned in a node and the heap
// locations it may write (syntactically; calls through their contracts).
func (x *Exec) assignedIn(n ast.Node) *frameInfo {
	fi := &frameInfo{objs: map[types.Object]bool{}, heapKeys: map[string]bool{}, elemOnly: map[types.Object]bool{}}
	whole := map[types.Object]bool{}
	var markL func(e ast.Expr)
	markElem := func(e ast.Expr) bool {
		if id, ok := unparen(e).(*ast.Ident); ok {
			if o := x.eng.info.Uses[id]; o != nil {
				if _, isSl := o.Type().Underlying().(*types.Slice); isSl {
					fi.objs[o] = true
					if !whole[o] {
						fi.elemOnly[o] = true
					}
					return true
				}
			}
		}
		return false
	}
	markL = func(e ast.Expr) {
		switch e := e.(type) {
		case *ast.Ident:
			if o := x.eng.info.Uses[e]; o != nil {
				fi.objs[o] = true
				whole[o] = true
				delete(fi.elemOnly, o)
				if v, ok := o.(*types.Var); ok && v.Parent() == x.eng.pkg.Types.Scope() {
					fi.heapKeys["global."+v.Name()] = true
				}
			}
			if o := x.eng.info.Defs[e]; o != nil {
				fi.objs[o] = true
			}
		case *ast.IndexExpr:
			if u, isMap := x.eng.info.TypeOf(e.X).Underlying().(*types.Map); isMap {
				fi.heapKeys[mapKeyName(u)] = true
				return
			}
			if markElem(e.X) {
				return
			}
			markL(e.X)
		case *ast.SelectorExpr:
			if t := x.eng.info.TypeOf(e.X); t != nil {
				if p, isPtr := t.Underlying().(*types.Pointer); isPtr {
					sn := structName(p.Elem())
					if id, isId := unparen(e.X).(*ast.Ident); isId {
						if v, isVar := x.eng.info.Uses[id].(*types.Var); isVar && v.Parent() != x.eng.pkg.Types.Scope() && !v.IsField() {
							if fi.instW == nil {
								fi.instW = map[string][]*types.Var{}
							}
							fi.instW[sn+"."+e.Sel.Name] = append(fi.instW[sn+"."+e.Sel.Name], v)
							for _, g := range x.eng.cf.OnWrite {
								if g.matches(sn, e.Sel.Name) {
									fi.heapKeys["global.ghost."+g.Ghost] = true
								}
							}
							return
						}
					}
					fi.heapKeys[sn+"."+e.Sel.Name] = true
					for _, g := range x.eng.cf.OnWrite {
						if g.matches(sn, e.Sel.Name) {
							fi.heapKeys["global.ghost."+g.Ghost] = true
						}
					}
					return
				}
			}
			markL(e.X)
		case *ast.StarExpr:
			if t := x.eng.info.TypeOf(e.X); t != nil {
				if p, isPtr := t.Underlying().(*types.Pointer); isPtr {
					if kindOf(p.Elem()) == kStruct {
						fi.heapKeys[structName(p.Elem())] = true
					} else {
						fi.heapKeys["cell."+types.TypeString(p.Elem(), nil)] = true
					}
					return
				}
			}
			fi.heapAll = true
		case *ast.ParenExpr:
			markL(e.X)
		}
	}
	// ghost instrumentation bound to statements of this function ("ghostafter")
	// writes ghost state wherever those statements occur
	var gAfter []*GhostAnchor
	if len(x.frames) > 0 {
		if c := x.eng.cf.Contracts[x.frame().qual]; c != nil {
			gAfter = append(append([]*GhostAnchor{}, c.GhostAfter...), c.GhostBefore...)
		}
		if c := x.eng.cf.Contracts[x.qual]; c != nil && x.frame().qual != x.qual {
			gAfter = append(gAfter, c.GhostBefore...)
		}
	}
	ghostWrites := func(st ast.Stmt) {
		if len(gAfter) == 0 {
			return
		}
		txt := x.eng.srcText(st)
		for _, ga := range gAfter {
			if !strings.HasPrefix(txt, ga.Anchor) {
				continue
			}
			if ga.Eff.BulkKey != "" {
				fi.heapKeys[ga.Eff.BulkKey] = true
				continue
			}
			switch l := ga.Eff.LHS.(type) {
			case *ast.Ident:
				fi.heapKeys["global.ghost."+l.Name] = true
			case *ast.SelectorExpr:
				fi.heapKeys["*."+l.Sel.Name] = true
			default:
				fi.heapAll = true
			}
		}
	}
	ast.Inspect(n, func(n ast.Node) bool {
		switch s := n.(type) {
		case *ast.ExprStmt:
			ghostWrites(s)
		case *ast.ReturnStmt:
			ghostWrites(s)
		case *ast.BranchStmt:
			ghostWrites(s)
		case *ast.SendStmt:
			ghostWrites(s)
		case *ast.DeclStmt:
			ghostWrites(s)
		case *ast.AssignStmt:
			ghostWrites(s)
			for _, l := range s.Lhs {
				markL(l)
			}
		case *ast.IncDecStmt:
			ghostWrites(s)
			markL(s.X)
		case *ast.RangeStmt:
			if s.Key != nil {
				markL(s.Key)
			}
			if s.Value != nil {
				markL(s.Value)
			}
		case *ast.CallExpr:
			x.callFrame(s, fi)
		case *ast.ValueSpec:
			for _, id := range s.Names {
				if o := x.eng.info.Defs[id]; o != nil {
					fi.objs[o] = true
				}
			}
		}
		return true
	})
	// field writes through pointer variables: keys written in no other way are
	// remembered so that a loop can forget just those objects' fields
	for key, vars := range fi.instW {
		if fi.heapAll || fi.matches(key) {
			continue
		}
		if fi.instOnly == nil {
			fi.instOnly = map[string][]*types.Var{}
		}
		fi.instOnly[key] = vars
	}
	for key := range fi.instW {
		fi.heapKeys[key] = true
	}
	return fi
}

// callArgVar: base is the callee's receiver or parameter name and the call
// passes a local pointer variable for it; returns that variable.
func (x *Exec) callArgVar(c *ast.CallExpr, callee *types.Func, base ast.Expr) *types.Var {
	id, ok := base.(*ast.Ident)
	if !ok {
		return nil
	}
	sig := callee.Type().(*types.Signature)
	var actual ast.Expr
	if r := sig.Recv(); r != nil && r.Name() == id.Name {
		if sel, ok := unparen(c.Fun).(*ast.SelectorExpr); ok {
			actual = sel.X
		}
	} else {
		for i := 0; i < sig.Params().Len() && i < len(c.Args); i++ {
			if sig.Params().At(i).Name() == id.Name {
				actual = c.Args[i]
			}
		}
	}
	if actual == nil {
		return nil
	}
	aid, ok := unparen(actual).(*ast.Ident)
	if !ok {
		return nil
	}
	v, ok := x.eng.info.Uses[aid].(*types.Var)
	if !ok || v.IsField() || v.Parent() == x.eng.pkg.Types.Scope() {
		return nil
	}
	return v
}

// callFrame adds the write frame of a call.
func (x *Exec) callFrame(c *ast.CallExpr, fi *frameInfo) {
	if x.callIsPure(c) {
		// copy() writes its destination slice variable
		if id, ok := unparen(c.Fun).(*ast.Ident); ok && id.Name == "copy" && len(c.Args) > 0 {
			if d, ok := unparen(c.Args[0]).(*ast.Ident); ok {
				if o := x.eng.info.Uses[d]; o != nil {
					fi.objs[o] = true
				}
			} else {
				fi.heapAll = true
			}
		}
		return
	}
	var callee *types.Func
	// call of a func-typed parameter that has a callback contract
	if id, ok := unparen(c.Fun).(*ast.Ident); ok && len(x.frames) > 0 {
		if ct := x.eng.cf.Contracts[x.frame().qual]; ct != nil {
			if cb := ct.Callbacks[id.Name]; cb != nil {
				if cb.Pure {
					return
				}
				for _, m := range cb.Modifies {
					if m == "*" || m == "heap" {
						fi.heapAll = true
					} else {
						fi.heapKeys[strings.TrimSuffix(m, ".*")] = true
					}
				}
				if len(cb.Modifies) == 0 {
					fi.heapAll = true
				}
				return
			}
		}
	}
	switch f := unparen(c.Fun).(type) {
	case *ast.Ident:
		if b, ok := x.eng.info.Uses[f].(*types.Builtin); ok {
			if b.Name() == "delete" && len(c.Args) > 0 {
				if u, ok := x.eng.info.TypeOf(c.Args[0]).Underlying().(*types.Map); ok {
					fi.heapKeys[mapKeyName(u)] = true
					return
				}
			}
			return
		}
		callee, _ = x.eng.info.Uses[f].(*types.Func)
	case *ast.SelectorExpr:
		if sel := x.eng.info.Selections[f]; sel != nil && sel.Kind() == types.MethodVal {
			callee, _ = sel.Obj().(*types.Func)
		} else {
			callee, _ = x.eng.info.Uses[f.Sel].(*types.Func)
		}
	}
	if callee != nil && callee.Pkg() != nil && callee.Pkg().Path() == "sync/atomic" && len(c.Args) > 0 {
		// atomic operation on &p.f: a write of that field (see lib model)
		if ue, ok := unparen(c.Args[0]).(*ast.UnaryExpr); ok && ue.Op == token.AND {
			if sel, ok := unparen(ue.X).(*ast.SelectorExpr); ok {
				if t := x.eng.info.TypeOf(sel.X); t != nil {
					if p, isPtr := t.Underlying().(*types.Pointer); isPtr {
						key := structName(p.Elem()) + "." + sel.Sel.Name
						if strings.HasPrefix(callee.Name(), "Load") {
							return
						}
						if id, isId := unparen(sel.X).(*ast.Ident); isId {
							if v, isVar := x.eng.info.Uses[id].(*types.Var); isVar && !v.IsField() && v.Parent() != x.eng.pkg.Types.Scope() {
								if fi.instW == nil {
									fi.instW = map[string][]*types.Var{}
								}
								fi.instW[key] = append(fi.instW[key], v)
								return
							}
						}
						fi.heapKeys[key] = true
						return
					}
				}
			}
		}
	}
	if callee != nil {
		if fq := funcQual(callee); (fq == "encoding/gob.Decoder.Decode" || fq == "encoding/json.Unmarshal") && len(c.Args) > 0 {
			// library model writes the pointee of the last argument
			if p, ok := x.eng.info.TypeOf(c.Args[len(c.Args)-1]).Underlying().(*types.Pointer); ok {
				if _, isS := p.Elem().Underlying().(*types.Struct); isS {
					fi.heapKeys[structName(p.Elem())] = true
				} else {
					fi.heapKeys["cell."+types.TypeString(p.Elem(), nil)] = true
				}
			} else {
				fi.heapAll = true
			}
		}
		if ct := x.eng.cf.Contracts[funcQual(callee)]; ct != nil && len(ct.Writes) > 0 {
			sig := callee.Type().(*types.Signature)
			for i := 0; i < sig.Params().Len() && i < len(c.Args); i++ {
				if contains(ct.Writes, sig.Params().At(i).Name()) {
					if id, ok := unparen(c.Args[i]).(*ast.Ident); ok {
						if o := x.eng.info.Uses[id]; o != nil {
							if !fi.objs[o] {
								fi.elemOnly[o] = true
							}
							fi.objs[o] = true
						}
					} else {
						fi.heapAll = true
					}
				}
			}
		}
		if ct := x.eng.cf.Contracts[funcQual(callee)]; ct != nil && !ct.Inline {
			if !ct.Trusted {
				for name := range x.eng.cf.Ghosts {
					if ct.modifiesGhost(name) {
						fi.heapKeys["global.ghost."+name] = true
					}
				}
			}
			if len(ct.Modifies) == 0 && len(ct.Effects) == 0 && len(ct.InstMods) == 0 && !ct.Pure && !ct.Trusted {
				fi.heapAll = true
			}
			for _, m := range ct.Modifies {
				if m == "*" || m == "heap" {
					fi.heapAll = true
				} else {
					fi.heapKeys[strings.TrimSuffix(m, ".*")] = true
				}
			}
			for _, im := range ct.InstMods {
				// BASE->field with BASE the receiver or a parameter, passed a
				// pointer variable by this call: an instance write of that variable
				if v := x.callArgVar(c, callee, im.Base); v != nil {
					if p, isPtr := v.Type().Underlying().(*types.Pointer); isPtr {
						if fi.instW == nil {
							fi.instW = map[string][]*types.Var{}
						}
						k := structName(p.Elem()) + "." + im.Field
						fi.instW[k] = append(fi.instW[k], v)
						continue
					}
				}
				fi.heapKeys["*."+im.Field] = true
			}
			for _, ef := range ct.Effects {
				if sel, ok := ef.LHS.(*ast.SelectorExpr); ok {
					fi.heapKeys["*."+sel.Sel.Name] = true
				} else if id, ok := ef.LHS.(*ast.Ident); ok {
					fi.heapKeys["global.ghost."+id.Name] = true
				}
			}
			return
		}
		if ct := x.eng.cf.Contracts[funcQual(callee)]; ct != nil && ct.Inline {
			if fd := x.eng.funcs[funcQual(callee)]; fd != nil {
				sub := x.assignedIn(fd.Body)
				if sub.heapAll {
					fi.heapAll = true
				}
				for k := range sub.heapKeys {
					fi.heapKeys[k] = true
				}
				return
			}
		}
	}
	fi.heapAll = true
}

func (fi *frameInfo) matches(key string) bool {
	for k := range fi.heapKeys {
		if key == k || strings.HasPrefix(key, k+".") || (k == "map" && strings.HasPrefix(key, "map<")) {
			return true
		}
		if strings.HasPrefix(k, "*.") {
			// "*.field": any struct's field of that name
			rest := key
			if i := strings.Index(rest, "."); i >= 0 {
				f := rest[i+1:]
				if f == k[2:] || strings.HasPrefix(f, k[2:]+".") {
					return true
				}
			}
		}
	}
	return false
}

func (x *Exec) havocLoopTargets(st *State, spec *LoopSpec, body ast.Node, extra ...ast.Node) {
	fi := x.assignedIn(body)
	for _, e := range extra {
		if e == nil {
			continue
		}
		f2 := x.assignedIn(e)
		for o := range f2.objs {
			fi.objs[o] = true
			if !f2.elemOnly[o] {
				delete(fi.elemOnly, o)
			}
		}
		fi.heapAll = fi.heapAll || f2.heapAll
		for k := range f2.heapKeys {
			fi.heapKeys[k] = true
		}
	}
	if spec != nil && len(spec.Modifies) > 0 {
		fi.heapAll = false
		fi.heapKeys = map[string]bool{}
		for _, m := range spec.Modifies {
			if m == "*" || m == "heap" {
				fi.heapAll = true
			} else if m != "nothing" {
				fi.heapKeys[strings.TrimSuffix(m, ".*")] = true
			}
		}
	}
	// deterministic order
	var keys []types.Object
	for o := range fi.objs {
		if _, ok := st.env[o]; ok {
			keys = append(keys, o)
		}
	}
	sort.Slice(keys, func(i, j int) bool { return keys[i].Pos() < keys[j].Pos() })
	for _, o := range keys {
		if fi.elemOnly[o] {
			// only elements are written: header (off/len/cap/nil) is preserved
			cur := st.env[o]
			nv := &Value{T: cur.T, L: copyLeaves(cur.L)}
			for p, t := range nv.L {
				if p == "arr" || strings.HasPrefix(p, "arr.") {
					nv.L[p] = x.b.Fresh(o.Name()+"."+p, t.Sort)
				}
			}
			st.env[o] = nv
			continue
		}
		nv := x.freshValue(o.Type(), o.Name())
		x.assumeWellFormed(st, nv)
		st.env[o] = nv
		if hv := x.madeVars[o]; hv != nil {
			st.env[hv] = scalarV(types.Typ[types.Bool], x.b.Fresh("made."+o.Name(), BoolSort))
		}
	}
	if fi.heapAll {
		x.havocHeap(st, "loop", nil)
		for k, g := range st.globals {
			if strings.HasPrefix(k, "ghost.") && fi.matches("global."+k) {
				st.globals[k] = x.freshValue(g.T, "g."+k)
			}
		}
		return
	}
	if len(fi.heapKeys) > 0 {
		// make sure arrays that will be written exist, then havoc the matching ones
		// instance-level: p.f written only through pointer variables that the
		// loop does not reassign -> forget just those cells
		precise := map[string]bool{}
		for key, vars := range fi.instOnly {
			ok := len(vars) > 0
			var refs []*Term
			for _, v := range vars {
				cur, have := st.env[v]
				if fi.objs[v] || !have || cur.L == nil || kindOf(cur.T) != kRef {
					ok = false
					break
				}
				refs = append(refs, cur.scalar())
			}
			if !ok || x.isImmutableKey(key) || x.isStableKey(key) {
				continue
			}
			p, _ := vars[0].Type().Underlying().(*types.Pointer)
			if p == nil {
				continue
			}
			fname := key[strings.LastIndex(key, ".")+1:]
			ft := x.fieldType(p.Elem(), fname)
			if ft == nil {
				continue
			}
			for _, l := range x.leavesOf(ft) {
				k := join(key, l.path)
				arr := x.heapArr(st, k, l.sort)
				for _, r := range refs {
					arr = x.b.Store(arr, r, x.b.Fresh("hv."+k, l.sort))
				}
				st.heap[k] = arr
				precise[k] = true
			}
			precise[key] = true
		}
		for k, a := range st.heap {
			if precise[k] {
				continue
			}
			if fi.matches(k) && (fi.heapKeys[k] || !(x.isImmutableKey(k) || x.isStableKey(k))) {
				st.heap[k] = x.b.Fresh("H."+k, a.Sort)
			}
		}
		for k, g := range st.globals {
			if fi.matches("global." + k) {
				st.globals[k] = x.freshValue(g.T, "g."+k)
			}
		}
	}
	if fi.heapAll {
		// unknown callees may also change ghost state through verified helpers
	}
	if fi.heapAll || len(fi.heapKeys) > 0 {
		x.havocId++
		st.pending = append(st.pending, &pendingHavoc{x.havocId, fi})
	}
}

func (x *Exec) assumeIntRange(st *State, v *Value) {}

type loopParts struct {
	cond      func(st *State) *Term // nil = true
	body      func(st *State) *State
	post      func(st *State) *State
	node      ast.Stmt
	label     string
	bodyN     ast.Node
	postN     ast.Node
	condN     ast.Node
	extraObjs []types.Object
	autoInv   func(st *State) *Term
}

func (x *Exec) runLoop(st *State, lp *loopParts) *State {
	spec, ord := x.loopSpec(lp.node)
	fr := x.frame()
	// Strategy 1: concrete unrolling while the condition folds to a constant
	// (spec functions, split-concretised loops), or explicit "unroll N".
	maxUnroll := 0
	if spec != nil && spec.Unroll > 0 {
		maxUnroll = spec.Unroll
	}
	if (spec == nil || len(spec.Invariants) == 0) && lp.cond == nil && maxUnroll == 0 {
		// for { ... } without annotation: havoc abstraction
		return x.runLoopHavoc(st, lp, nil, ord)
	}
	if spec == nil || len(spec.Invariants) == 0 {
		var exits []*State
		cur := st
		limit := 4096
		if maxUnroll > 0 {
			limit = maxUnroll
		} else if !x.eng.specFns[fr.qual] && x.noSafety == 0 {
			limit = 80
		}
		snapshot := st.clone()
		for iter := 0; cur != nil; iter++ {
			var c *Term
			if lp.cond != nil {
				c = lp.cond(cur)
			} else {
				c = x.b.True()
			}
			if c.IsFalse() {
				exits = append(exits, cur)
				cur = nil
				break
			}
			if !c.IsTrue() {
				if maxUnroll == 0 {
					if x.specProbe && x.eng.specFns[fr.qual] {
						x.specSymLoop = true
						return st
					}
					// symbolic condition and no annotation: fall back to havoc abstraction
					if iter == 0 {
						return x.runLoopHavoc(st, lp, nil, ord)
					}
					// partially unrolled with symbolic condition: not allowed silently
					x.fail("loop %d of %s: condition became symbolic after %d concrete iterations; add 'loop %d unroll N' or an invariant", ord, fr.qual, iter, ord)
					return nil
				}
				ex := cur.clone()
				x.assume(ex, x.b.Not(c))
				exits = append(exits, ex)
				x.assume(cur, c)
			}
			if iter >= limit {
				if maxUnroll > 0 {
					// unwinding assertion: the loop must have exited by now
					x.oblige(cur, "unwind", fmt.Sprintf("loop%d.unwind", ord), x.b.False(), lp.node.Pos(), nil)
					cur = nil
					break
				}
				if !x.eng.specFns[fr.qual] && x.noSafety == 0 {
					// long concrete loop in program code: abstract it instead
					return x.runLoopHavoc(snapshot, lp, nil, ord)
				}
				x.fail("loop %d of %s: more than %d concrete iterations", ord, fr.qual, limit)
				return nil
			}
			cf := &ctlFrame{label: lp.label, isLoop: true}
			fr.ctl = append(fr.ctl, cf)
			after := lp.body(cur)
			fr.ctl = fr.ctl[:len(fr.ctl)-1]
			exits = append(exits, cf.breaks...)
			next := x.mergeAll(append([]*State{after}, cf.conts...))
			if next != nil && lp.post != nil {
				next = lp.post(next)
			}
			cur = next
			if cur != nil && x.infeasible(cur) {
				cur = nil
			}
		}
		return x.mergeAll(exits)
	}
	return x.runLoopHavoc(st, lp, spec, ord)
}

// runLoopHavoc: invariant-based treatment (or plain havoc when spec==nil).
func (x *Exec) runLoopHavoc(st *State, lp *loopParts, spec *LoopSpec, ord int) *State {
	fr := x.frame()
	invPos := lp.node.Pos() + 1
	switch ln := lp.node.(type) {
	case *ast.ForStmt:
		invPos = ln.Body.Lbrace + 1
	case *ast.RangeStmt:
		invPos = ln.Body.Lbrace + 1
	}
	evalInv := func(s *State, cl *Clause) *Term {
		// "ri" names this loop's own range index (ri<ordinal> shifts when a loop is added in front)
		for _, o := range lp.extraObjs {
			if strings.HasPrefix(o.Name(), "ri") && len(o.Name()) <= 4 {
				if v, ok := s.env[o]; ok {
					saved, had := s.names["ri"]
					s.names["ri"] = v
					defer func() {
						if had {
							s.names["ri"] = saved
						} else {
							delete(s.names, "ri")
						}
					}()
				}
				break
			}
		}
		return x.evalClause(s, cl, invPos)
	}
	// contract-level invariants apply to every loop of the function
	if c := x.eng.cf.Contracts[fr.qual]; c != nil && len(c.LoopInvs) > 0 {
		ns := &LoopSpec{}
		if spec != nil {
			*ns = *spec
		}
		ns.Invariants = append(append([]*Clause{}, c.LoopInvs...), ns.Invariants...)
		spec = ns
	}
	// 1. invariant on entry
	if spec != nil {
		for _, inv := range spec.Invariants {
			x.skolem = true
			g := evalInv(st, inv)
			x.skolem = false
			x.oblige(st, "inv-entry", inv.Name+".entry", g, lp.node.Pos(), inv.Props)
		}
	} else {
		x.note(fmt.Sprintf("loop-without-invariant:%s#%d", fr.qual, ord))
	}
	// 2. havoc loop targets, assume invariant
	h := st.clone()
	x.havocLoopTargets(h, spec, lp.bodyN, lp.postN, lp.condN)
	for _, o := range lp.extraObjs {
		if _, ok := h.env[o]; ok {
			nv := x.freshValue(o.Type(), o.Name())
			x.assumeWellFormed(h, nv)
			h.env[o] = nv
			if strings.HasPrefix(o.Name(), "ri") && len(o.Name()) <= 4 {
				h.names[o.Name()] = nv
			}
		}
	}
	if lp.autoInv != nil {
		x.assume(h, lp.autoInv(h))
	}
	if spec != nil {
		for _, inv := range spec.Invariants {
			x.assume(h, evalInv(h, inv))
		}
	}
	var c *Term
	if lp.cond != nil {
		c = lp.cond(h)
	} else {
		c = x.b.True()
	}
	exit := h.clone()
	x.assume(exit, x.b.Not(c))
	x.assume(h, c)
	// 3. body preserves invariant
	var variant0 *Term
	if spec != nil && spec.Decreases != nil {
		variant0 = x.evalClauseValue(h, spec.Decreases, invPos)
	}
	cf := &ctlFrame{label: lp.label, isLoop: true}
	fr.ctl = append(fr.ctl, cf)
	after := lp.body(h)
	fr.ctl = fr.ctl[:len(fr.ctl)-1]
	next := x.mergeAll(append([]*State{after}, cf.conts...))
	if next != nil && lp.post != nil {
		next = lp.post(next)
	}
	if next != nil && spec != nil {
		for _, inv := range spec.Invariants {
			x.skolem = true
			g := evalInv(next, inv)
			x.skolem = false
			x.oblige(next, "inv-preserve", inv.Name+".preserve", g, lp.node.Pos(), inv.Props)
		}
		if variant0 != nil {
			v1 := x.evalClauseValue(next, spec.Decreases, invPos)
			zero := x.b.Num(big.NewInt(0), variant0.Sort)
			g := x.b.And(x.b.Lt(v1, variant0, true), x.b.Le(zero, variant0, true))
			x.oblige(next, "decreases", spec.Decreases.Name, g, lp.node.Pos(), spec.Decreases.Props)
		}
	}
	exits := append([]*State{exit}, cf.breaks...)
	return x.mergeAll(exits)
}

func (x *Exec) execFor(st *State, s *ast.ForStmt, label string) *State {
	if s.Init != nil {
		st = x.execStmt(st, s.Init)
		if st == nil {
			return nil
		}
	}
	lp := &loopParts{node: s, label: label, bodyN: s.Body}
	if s.Cond != nil {
		lp.cond = func(st *State) *Term { return x.evalCond(st, s.Cond) }
		lp.condN = s.Cond // a condition may have effects (it.next())
	}
	lp.body = func(st *State) *State { return x.execBlock(st, s.Body.List) }
	if s.Post != nil {
		lp.post = func(st *State) *State { return x.execStmt(st, s.Post) }
		lp.postN = s.Post
	}
	return x.runLoop(st, lp)
}

func (x *Exec) execRange(st *State, s *ast.RangeStmt, label string) *State {
	xt := x.eng.info.TypeOf(s.X)
	keyObj := func(e ast.Expr) types.Object {
		id, ok := e.(*ast.Ident)
		if !ok || id.Name == "_" {
			return nil
		}
		if o := x.eng.info.Defs[id]; o != nil {
			return o
		}
		return x.eng.info.Uses[id]
	}
	var kObj, vObj types.Object
	if s.Key != nil {
		kObj = keyObj(s.Key)
	}
	if s.Value != nil {
		vObj = keyObj(s.Value)
	}
	// ghost index variable
	idxVar := types.NewVar(s.Pos(), x.eng.pkg.Types, fmt.Sprintf("ri%d", x.loopOrdinal(s)), types.Typ[types.Int])
	is := x.idxSort()
	switch u := xt.Underlying().(type) {
	case *types.Slice, *types.Array, *types.Basic:
		coll := x.eval(st, s.X)
		var n *Term
		var elemT types.Type
		isStr := false
		switch uu := u.(type) {
		case *types.Slice:
			n = coll.L["len"]
			elemT = uu.Elem()
		case *types.Array:
			n = x.b.Num(big.NewInt(uu.Len()), is)
			elemT = uu.Elem()
		case *types.Basic:
			if uu.Info()&types.IsString != 0 {
				isStr = true
				n = x.strLen(coll.scalar())
				elemT = types.Typ[types.Rune]
				if s.Value != nil && vObj != nil {
					x.note("range-over-string-runes")
				}
			} else if uu.Info()&types.IsInteger != 0 {
				// range over int
				n = x.toIndex(st, coll)
			} else {
				x.fail("range over %v", xt)
				return nil
			}
		}
		st.env[idxVar] = scalarV(types.Typ[types.Int], x.b.Num(big.NewInt(0), is))
		st.names[idxVar.Name()] = st.env[idxVar]
		lp := &loopParts{node: s, label: label}
		lp.cond = func(st *State) *Term { return x.b.Lt(st.env[idxVar].scalar(), n, true) }
		lp.body = func(st *State) *State {
			i := st.env[idxVar].scalar()
			// ghost index is within [0,n) here
			x.assume(st, x.b.Le(x.b.Num(big.NewInt(0), is), i, true))
			if kObj != nil {
				st.env[kObj] = scalarV(kObj.Type(), x.castIdx(i, kObj.Type()))
			}
			if vObj != nil {
				if isStr {
					st.env[vObj] = x.freshValue(vObj.Type(), "rune")
				} else if elemT != nil && coll.L != nil {
					off := coll.L["off"]
					ix := i
					if off != nil {
						ix = x.b.Add(off, i)
					}
					ev := x.selectElem(coll, ix, elemT)
					x.assumeWellFormed(st, ev)
					st.env[vObj] = ev
				}
			}
			return x.execBlock(st, s.Body.List)
		}
		lp.post = func(st *State) *State {
			i := st.env[idxVar].scalar()
			st.env[idxVar] = scalarV(types.Typ[types.Int], x.b.Add(i, x.b.Num(big.NewInt(1), is)))
			st.names[idxVar.Name()] = st.env[idxVar]
			return st
		}
		lp.bodyN = s.Body
		zero := x.b.Num(big.NewInt(0), is)
		lp.autoInv = func(st *State) *Term {
			i := st.env[idxVar].scalar()
			return x.b.And(x.b.Le(zero, i, true), x.b.Le(i, n, true))
		}
		x.assume(st, x.b.Le(zero, n, true))
		out := x.runLoopRange(st, lp, idxVar, kObj, vObj)
		return out
	case *types.Map:
		x.note("range-over-map")
		m := x.eval(st, s.X)
		lp := &loopParts{node: s, label: label, bodyN: s.Body}
		// ghost set of the keys already visited (int and string keys): every
		// iteration takes a key of the map that was not visited yet, and the loop
		// ends when every key of the map was visited. Invariants refer to it as
		// visited(k).
		var visVar *types.Var
		var ghostSetT types.Type
		switch kindOf(u.Key()) {
		case kInt:
			if w, _ := intInfo(u.Key()); w == 64 {
				ghostSetT = x.eng.typeByName("seqof:bool")
			}
		case kString:
			ghostSetT = x.eng.typeByName("strmapof:bool")
		}
		if ghostSetT != nil {
			visVar = types.NewVar(s.Pos(), x.eng.pkg.Types, fmt.Sprintf("rv%d", x.loopOrdinal(s)), ghostSetT)
			empty := x.zeroValue(ghostSetT)
			st.env[visVar] = empty
			lp.extraObjs = append(lp.extraObjs, visVar)
			x.visitedVars = append(x.visitedVars, visVar)
			defer func() { x.visitedVars = x.visitedVars[:len(x.visitedVars)-1] }()
		}
		allVisited := func(st *State) *Term {
			// forall k. haskey(m,k) ==> visited[k]
			kt := u.Key()
			kv := &Value{T: kt, L: map[string]*Term{}}
			var bound []*Term
			for _, l := range x.leavesOf(kt) {
				x.nameCount["$q"]++
				bv := x.b.Var(fmt.Sprintf("q!mk!%d", x.nameCount["$q"]), l.sort)
				kv.L[l.path] = bv
				bound = append(bound, bv)
			}
			has := x.mapHas(st, m, u, kv)
			vis := x.b.Select(st.env[visVar].L["arr"], kv.scalar())
			return x.b.Forall(bound, x.b.Implies(has, vis), []*Term{vis}, []*Term{has})
		}
		more := func(st *State) *Term {
			if visVar != nil {
				return x.b.Not(allVisited(st))
			}
			return x.b.Fresh("map.more", BoolSort)
		}
		lp.cond = more
		lp.body = func(st *State) *State {
			if kObj != nil || visVar != nil {
				kt := u.Key()
				kv := x.freshValue(kt, "mapkey")
				if kObj != nil {
					st.env[kObj] = kv
				}
				if _, keyOK := x.mapKeySort(kt); keyOK {
					x.assume(st, x.mapHas(st, m, u, kv))
					if visVar != nil {
						cur := st.env[visVar]
						x.assume(st, x.b.Not(x.b.Select(cur.L["arr"], kv.scalar())))
						nv := &Value{T: cur.T, L: map[string]*Term{"arr": x.b.Store(cur.L["arr"], kv.scalar(), x.b.True())}}
						st.env[visVar] = nv
					}
				}
				if kObj == nil {
					kObj = types.NewVar(s.Pos(), x.eng.pkg.Types, "_mapkey", kt)
					st.env[kObj] = kv
				}
			}
			if false {
				kv := x.freshValue(kObj.Type(), "mapkey")
				st.env[kObj] = kv
				if len(kv.L) == 1 {
					x.assume(st, x.mapHas(st, m, u, kv))
				}
			}
			if vObj != nil {
				_, keyOK := x.mapKeySort(u.Key())
				if kObj != nil && keyOK {
					st.env[vObj] = x.mapLoad(st, m, u, st.env[kObj])
				} else {
					st.env[vObj] = x.freshValue(vObj.Type(), "mapval")
				}
				x.assumeWellFormed(st, st.env[vObj])
			}
			return x.execBlock(st, s.Body.List)
		}
		spec, ord := x.loopSpec(s)
		if kObj != nil {
			st.env[kObj] = x.zeroValue(kObj.Type())
		}
		if vObj != nil {
			st.env[vObj] = x.zeroValue(vObj.Type())
		}
		return x.runLoopHavoc(st, lp, spec, ord)
	case *types.Chan:
		x.note("range-over-channel")
		lp := &loopParts{node: s, label: label, bodyN: s.Body}
		lp.cond = func(st *State) *Term { return x.b.Fresh("chan.more", BoolSort) }
		lp.body = func(st *State) *State {
			if kObj != nil {
				st.env[kObj] = x.freshValue(kObj.Type(), "chanval")
			}
			return x.execBlock(st, s.Body.List)
		}
		spec, ord := x.loopSpec(s)
		if kObj != nil {
			st.env[kObj] = x.zeroValue(kObj.Type())
		}
		return x.runLoopHavoc(st, lp, spec, ord)
	case *types.Signature:
		x.fail("range over func")
		return nil
	}
	x.fail("range over %v", xt)
	return nil
}

// runLoopRange: range loops carry a ghost index with the built-in invariant
// 0 <= idx <= n, which is havoc'd together with the key/value variables.
func (x *Exec) runLoopRange(st *State, lp *loopParts, idxVar types.Object, kObj, vObj types.Object) *State {
	if kObj != nil {
		if _, ok := st.env[kObj]; !ok {
			st.env[kObj] = x.zeroValue(kObj.Type())
		}
	}
	if vObj != nil {
		if _, ok := st.env[vObj]; !ok {
			st.env[vObj] = x.zeroValue(vObj.Type())
		}
	}
	lp.extraObjs = []types.Object{idxVar}
	if kObj != nil {
		lp.extraObjs = append(lp.extraObjs, kObj)
	}
	if vObj != nil {
		lp.extraObjs = append(lp.extraObjs, vObj)
	}
	return x.runLoop(st, lp)
}

// evalCommaOk evaluates the right-hand side of a two-value assignment.
func (x *Exec) evalCommaOk(st *State, e ast.Expr) []*Value {
	switch r := unparen(e).(type) {
	case *ast.IndexExpr:
		if t := x.eng.info.TypeOf(r.X); t != nil {
			if _, ok := t.Underlying().(*types.Map); ok {
				return x.evalIndex(st, r, true)
			}
		}
	case *ast.TypeAssertExpr:
		return x.evalTypeAssert(st, r, true)
	case *ast.UnaryExpr:
		if r.Op == token.ARROW {
			v := x.evalUnary(st, r)
			return []*Value{v, scalarV(types.Typ[types.Bool], x.b.Fresh("recv.ok", BoolSort))}
		}
	}
	return x.evalMulti(st, e)
}
