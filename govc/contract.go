package main

// Contract file parser. Contracts are //@ comment lines in
// /repo/zz_contracts_verif.go (build tag verif), keyed by function.

import (
	"hash/fnv"
	"fmt"
	"go/ast"
	"go/parser"
	"math/big"
	"os"
	"regexp"
	"strconv"
	"strings"
)

type Clause struct {
	Name  string
	Src   string
	Expr  ast.Expr
	Props []string // nil = all props of the contract
	Line  int
	// quantifier prefix: forall v T :: body
	QVars    []QVar
	Free     bool // "free" clause: assumed, not checked (listed as assumption)
	Internal bool
	Optin    bool // exported to callers only on request (use callee.clause)
	Slow     bool // obligations of this clause are solved in the thorough tier (and at relock) only
}

type QVar struct {
	Name string
	Type string
}

type LoopSpec struct {
	Invariants []*Clause
	Unroll     int
	Decreases  *Clause
	Modifies   []string
}

type FreshVar struct {
	Name    string
	Lo, Hi  *big.Int
	Split   bool
	Witness ast.Expr
	WSrc    string
	Type    string
}

type Effect struct {
	LHS, RHS ast.Expr
	Src      string
	Cond     ast.Expr
	BulkKey  string // "Struct.field": array comprehension over all references
	BulkVar  string
}

type Contract struct {
	Func          string
	Props         []string
	Mode          string
	Requires      []*Clause
	Ensures       []*Clause
	Loops         map[int]*LoopSpec
	Fresh         []*FreshVar
	Subst         map[string]ast.Expr
	SubstSrc      map[string]string
	Inline        bool
	Pure          bool
	Trusted       bool
	Modifies      []string
	Effects       []*Effect
	Line          int
	NoSafety      bool                 // do not emit implicit safety obligations (used for spec helpers)
	Callbacks     map[string]*Contract // contracts for func-typed params
	Notes         []string
	Lemma         bool // pure lemma: no body, requires ==> ensures checked as a formula
	LemmaVars     []QVar
	MaxPaths      int
	MergeExits    bool
	NoMerge       bool // path splitting at top-level branching statements
	MutexUnknown  bool     // "mutexes unknown": do not assume that no mutex is held when the function starts
	Only          []string // the function is examined for these properties only (a partial contract: obligations other properties would tag are not generated for their checks)
	Touches       []string // properties some obligation of this function is tagged with although no clause of its own is (selection only)
	GoInline      bool // go func(){...}() literals are executed in place (the goroutine's own order of actions; no interleaving)
	GuardsOn      bool
	Callers       []string // whitelist of calling functions (nil = anyone)
	CallersProps  []string
	GhostBefore   []*GhostAnchor // ghost assignments executed just before the matching statement
	GhostCalls    []*GhostCall   // lemma applications just before the matching statement
	GhostAfter    []*GhostAnchor // ghost assignments executed after the statement whose text starts with Anchor
	GhostEntry    []*Effect      // ghost assignments executed at function entry (explicit instrumentation)
	LoopInvs      []*Clause
	LoopsByText   map[string]*LoopSpec // loops bound by header text prefix
	LoopTextOrder []string
	Writes        []string // slice parameters whose elements the function writes
	SafetyProps   []string
	OneOf         []string // callback: the argument must be one of these methods
	CaseOnly      ast.Expr // filter over split variables: only these cases exist
	InstMods      []*InstMod
	AssertBefore  []*AssertAnchor
	AssertAfter   []*AssertAnchor // assertafter "anchor" ...: checked right after the anchored statement
	Uses          []string // quantified callee clauses to assume at call sites: "callee.clause" or "callee.*"
}

type UFDecl struct {
	Name   string
	Params []QVar
	Ret    string
}

type PredDecl struct {
	Name   string
	Params []QVar
	Body   ast.Expr
}

type GhostAnchor struct {
	Anchor string
	Eff    *Effect
}

// GhostCall: "ghostcall ANCHOR [if COND :] LEMMA(args)": just before every
// statement whose text starts with Anchor the lemma is applied to the argument
// values: its (split-variable-free) preconditions become obligations, its
// (split-variable-free) conclusions are assumed. The lemma itself is proved
// separately, case by case.
type GhostCall struct {
	Anchor string
	Cond   ast.Expr
	Lemma  string
	Args   []ast.Expr
	Src    string
}

// InstMod: "modifies BASE->field": the function may write that field of the
// object BASE (evaluated on entry) and of no other object.
type InstMod struct {
	Base  ast.Expr
	Field string
	Src   string
}

// AssertAnchor: an assertion checked immediately before every statement whose
// source text starts with Anchor.
type AssertAnchor struct {
	Anchor string
	Cl     *Clause
}

type GuardDecl struct {
	Pattern string // "Struct.field" or "Struct.*"; "global.NAME" for a package-level variable
	Ghost   string
	Mutex   string // "by mutex NAME": guarded by the package-level mutex NAME (ghost lock state of that mutex)
	Atomic  bool   // "by atomic": every access must go through sync/atomic (a plain access fails)
	WritesOnly bool // "guarded writes ...": only writes need the guard (single-writer fields whose owner reads them without the lock)
}

func (g *GuardDecl) matches(structName, field string) bool {
	if g.Pattern == structName+".*" || g.Pattern == structName {
		return true
	}
	if g.Pattern == structName+"."+field {
		return true
	}
	// nested value fields: "Struct.field.sub"
	return strings.HasPrefix(structName+"."+field+".", g.Pattern+".")
}

type GhostField struct {
	Struct, Field, Type string
}

type ContractFile struct {
	Contracts   map[string]*Contract
	Order       []string
	UFs         map[string]*UFDecl
	GhostFields []*GhostField
	Axioms      []*Clause
	Assumptions []string // free-text list of assumptions scanned from "assume"/"trusted"/"axiom"
	PropsOf     map[string][]string
	defs        map[string][]string
	Preds       map[string]*PredDecl
	Ghosts      map[string]string
	Guards      []*GuardDecl
	OnWrite     []*GuardDecl
	TypeInvs    []*GuardDecl
	Immutable   []string
	Stable      []string // fields only written by functions under contract (checked by a census); kept across havoc
	Writers     []*WritersDecl // writers S.f [Cxx] : F1 F2 - the only functions that may assign the field (syntactic census)
}

// WritersDecl: a closed list of the functions that may assign a field.
type WritersDecl struct {
	Field string
	Props []string
	Funcs []string
}

var reName = regexp.MustCompile(`^([A-Za-z_][A-Za-z0-9_.\-]*):\s+(.*)$`)
var reProps = regexp.MustCompile(`^\[([A-Z0-9, ]+)\]\s*(.*)$`)

// rewriteSpecSyntax converts "A ==> B" and "A <==> B" (lowest precedence,
// ==> right-assoc) at paren depth 0 of s into Go syntax, recursively inside
// parentheses.
func rewriteSpecSyntax(s string) string {
	// first rewrite inside parenthesised groups
	var out strings.Builder
	depth := 0
	start := -1
	for i := 0; i < len(s); i++ {
		c := s[i]
		if c == '(' {
			if depth == 0 {
				start = i
			}
			depth++
		} else if c == ')' {
			depth--
			if depth == 0 {
				out.WriteByte('(')
				out.WriteString(rewriteSpecSyntax(s[start+1 : i]))
				out.WriteByte(')')
				start = -1
			}
		} else if depth == 0 {
			out.WriteByte(c)
		}
	}
	if depth != 0 {
		return s
	}
	t := out.String()
	// split on <==> at depth 0
	if i := indexTop(t, "<==>"); i >= 0 {
		return "((" + rewriteSpecSyntax(t[:i]) + ") == (" + rewriteSpecSyntax(t[i+4:]) + "))"
	}
	if i := indexTop(t, "==>"); i >= 0 {
		return "(!(" + rewriteSpecSyntax(t[:i]) + ") || (" + rewriteSpecSyntax(t[i+3:]) + "))"
	}
	return t
}

func indexTop(s, sep string) int {
	depth := 0
	for i := 0; i+len(sep) <= len(s); i++ {
		switch s[i] {
		case '(', '[', '{':
			depth++
		case ')', ']', '}':
			depth--
		}
		if depth == 0 && strings.HasPrefix(s[i:], sep) {
			if sep == "==>" && i > 0 && s[i-1] == '<' {
				continue
			}
			return i
		}
	}
	return -1
}

func parseClause(text string, line int) (*Clause, error) {
	c := &Clause{Line: line}
	text = strings.TrimSpace(text)
	if strings.HasPrefix(text, "free ") {
		c.Free = true
		text = strings.TrimSpace(text[5:])
	}
	if strings.HasPrefix(text, "slow ") {
		// takes longer than the quick budget: solved in the thorough tier only
		c.Slow = true
		text = strings.TrimSpace(text[5:])
	}
	if strings.HasPrefix(text, "optin ") {
		// exported to a caller only on request ("use callee.clause")
		c.Optin = true
		text = strings.TrimSpace(text[6:])
	}
	if strings.HasPrefix(text, "internal ") {
		// exit-state assertion over the function's own locals: proved for the
		// body, not exported to callers
		c.Internal = true
		text = strings.TrimSpace(text[9:])
	}
	if m := reProps.FindStringSubmatch(text); m != nil {
		for _, p := range strings.Split(m[1], ",") {
			c.Props = append(c.Props, strings.TrimSpace(p))
		}
		text = m[2]
	}
	if m := reName.FindStringSubmatch(text); m != nil && !strings.Contains(m[1], "..") {
		c.Name = m[1]
		text = m[2]
	}
	c.Src = text
	for strings.HasPrefix(text, "forall ") {
		i := strings.Index(text, "::")
		if i < 0 {
			return nil, fmt.Errorf("line %d: forall without ::", line)
		}
		decl := strings.Fields(text[7:i])
		if len(decl)%2 != 0 {
			return nil, fmt.Errorf("line %d: forall decl must be 'name type' pairs", line)
		}
		for j := 0; j < len(decl); j += 2 {
			c.QVars = append(c.QVars, QVar{strings.TrimSuffix(decl[j], ","), strings.TrimSuffix(decl[j+1], ",")})
		}
		text = strings.TrimSpace(text[i+2:])
	}
	e, err := parser.ParseExpr(rewriteSpecSyntax(text))
	if err != nil {
		return nil, fmt.Errorf("line %d: %v in %q", line, err, text)
	}
	c.Expr = e
	return c, nil
}

func parseBig(s string) (*big.Int, error) {
	s = strings.TrimSpace(s)
	e, err := parser.ParseExpr(s)
	if err != nil {
		return nil, err
	}
	return evalConstExpr(e)
}

func evalConstExpr(e ast.Expr) (*big.Int, error) {
	switch x := e.(type) {
	case *ast.BasicLit:
		v, ok := new(big.Int).SetString(strings.ReplaceAll(x.Value, "_", ""), 0)
		if !ok {
			return nil, fmt.Errorf("bad literal %s", x.Value)
		}
		return v, nil
	case *ast.ParenExpr:
		return evalConstExpr(x.X)
	case *ast.UnaryExpr:
		v, err := evalConstExpr(x.X)
		if err != nil {
			return nil, err
		}
		if x.Op.String() == "-" {
			return new(big.Int).Neg(v), nil
		}
		return v, nil
	case *ast.BinaryExpr:
		a, err := evalConstExpr(x.X)
		if err != nil {
			return nil, err
		}
		b, err := evalConstExpr(x.Y)
		if err != nil {
			return nil, err
		}
		switch x.Op.String() {
		case "+":
			return new(big.Int).Add(a, b), nil
		case "-":
			return new(big.Int).Sub(a, b), nil
		case "*":
			return new(big.Int).Mul(a, b), nil
		case "<<":
			return new(big.Int).Lsh(a, uint(b.Int64())), nil
		case "/":
			return new(big.Int).Quo(a, b), nil
		}
	}
	return nil, fmt.Errorf("not a constant expression")
}

func ParseContractFiles(paths []string) (*ContractFile, error) {
	cf := &ContractFile{Contracts: map[string]*Contract{}, UFs: map[string]*UFDecl{}}
	for _, p := range paths {
		if err := cf.parseOne(p); err != nil {
			return nil, err
		}
	}
	return cf, nil
}

func (cf *ContractFile) parseOne(path string) error {
	data, err := os.ReadFile(path)
	if err != nil {
		return err
	}
	// gather //@ lines with continuation (lines starting with "//@   " i.e. extra indent, or "//@ ..." )
	type item struct {
		text string
		line int
	}
	var items []item
	for i, ln := range strings.Split(string(data), "\n") {
		t := strings.TrimSpace(ln)
		if !strings.HasPrefix(t, "//@") {
			continue
		}
		body := t[3:]
		if strings.HasPrefix(body, "    ") || strings.HasPrefix(body, "\t") {
			if len(items) > 0 {
				items[len(items)-1].text += " " + strings.TrimSpace(body)
				continue
			}
		}
		body = strings.TrimSpace(body)
		if body == "" || strings.HasPrefix(body, "#") {
			continue
		}
		items = append(items, item{body, i + 1})
	}
	// templates: "define NAME" ... "end" record items; "include NAME" replays them
	{
		var out []item
		var defName string
		defs := cf.defs
		if defs == nil {
			defs = map[string][]string{}
			cf.defs = defs
		}
		for _, it := range items {
			kw, rest, _ := strings.Cut(it.text, " ")
			switch {
			case kw == "define":
				defName = strings.TrimSpace(rest)
				defs[defName] = nil
			case kw == "end" && defName != "":
				defName = ""
			case defName != "":
				defs[defName] = append(defs[defName], it.text)
			case kw == "include":
				body, ok := defs[strings.TrimSpace(rest)]
				if !ok {
					return fmt.Errorf("%s:%d: unknown template %q", path, it.line, rest)
				}
				for _, t := range body {
					out = append(out, item{t, it.line})
				}
			default:
				out = append(out, it)
			}
		}
		items = out
	}
	var cur *Contract
	var curCb *Contract
	target := func() *Contract {
		if curCb != nil {
			return curCb
		}
		return cur
	}
	for _, it := range items {
		kw, rest, _ := strings.Cut(it.text, " ")
		rest = strings.TrimSpace(rest)
		fail := func(e error) error { return fmt.Errorf("%s:%d: %v", path, it.line, e) }
		switch kw {
		case "func", "lemma":
			name := strings.TrimSpace(rest)
			cur = &Contract{Func: name, Loops: map[int]*LoopSpec{}, Subst: map[string]ast.Expr{}, SubstSrc: map[string]string{}, Line: it.line, Mode: "bv", Callbacks: map[string]*Contract{}}
			curCb = nil
			if kw == "lemma" {
				cur.Lemma = true
				// lemma NAME(v T, ...)
				if i := strings.Index(name, "("); i >= 0 {
					cur.Func = strings.TrimSpace(name[:i])
					ps := strings.TrimSuffix(strings.TrimSpace(name[i+1:]), ")")
					for _, p := range strings.Split(ps, ",") {
						f := strings.Fields(p)
						if len(f) == 2 {
							cur.LemmaVars = append(cur.LemmaVars, QVar{f[0], f[1]})
						}
					}
				}
			}
			if _, dup := cf.Contracts[cur.Func]; dup {
				return fail(fmt.Errorf("duplicate contract for %s", cur.Func))
			}
			cf.Contracts[cur.Func] = cur
			cf.Order = append(cf.Order, cur.Func)
		case "uf":
			// uf name(a T, b U) R
			i := strings.Index(rest, "(")
			j := strings.LastIndex(rest, ")")
			if i < 0 || j < i {
				return fail(fmt.Errorf("bad uf decl"))
			}
			d := &UFDecl{Name: strings.TrimSpace(rest[:i]), Ret: strings.TrimSpace(rest[j+1:])}
			if ps := strings.TrimSpace(rest[i+1 : j]); ps != "" {
				for _, p := range strings.Split(ps, ",") {
					f := strings.Fields(p)
					if len(f) != 2 {
						return fail(fmt.Errorf("bad uf param %q", p))
					}
					d.Params = append(d.Params, QVar{f[0], f[1]})
				}
			}
			cf.UFs[d.Name] = d
		case "pred":
			// pred name(a T, b U) = EXPR
			l, r, ok := strings.Cut(rest, " = ")
			if !ok {
				return fail(fmt.Errorf("pred needs NAME(params) = EXPR"))
			}
			i := strings.Index(l, "(")
			j := strings.LastIndex(l, ")")
			if i < 0 || j < i {
				return fail(fmt.Errorf("bad pred decl"))
			}
			d := &PredDecl{Name: strings.TrimSpace(l[:i])}
			if ps := strings.TrimSpace(l[i+1 : j]); ps != "" {
				for _, p := range strings.Split(ps, ",") {
					f := strings.Fields(p)
					if len(f) != 2 {
						return fail(fmt.Errorf("bad pred param %q", p))
					}
					d.Params = append(d.Params, QVar{f[0], f[1]})
				}
			}
			e, err := parser.ParseExpr(rewriteSpecSyntax(r))
			if err != nil {
				return fail(err)
			}
			d.Body = e
			if cf.Preds == nil {
				cf.Preds = map[string]*PredDecl{}
			}
			cf.Preds[d.Name] = d
		case "ghost":
			// ghost NAME TYPE : ghost global
			f := strings.Fields(rest)
			if len(f) != 2 {
				return fail(fmt.Errorf("ghost NAME TYPE"))
			}
			if cf.Ghosts == nil {
				cf.Ghosts = map[string]string{}
			}
			cf.Ghosts[f[0]] = f[1]
		case "guarded":
			// guarded PATTERN... by GHOST
			l, r, ok := strings.Cut(rest, " by ")
			if !ok {
				return fail(fmt.Errorf("guarded PATTERNS by GHOST"))
			}
			writesOnly := false
			if w, ok := strings.CutPrefix(strings.TrimSpace(l), "writes "); ok {
				writesOnly = true
				l = w
			}
			for _, pat := range strings.Fields(l) {
				g := &GuardDecl{Pattern: pat, Ghost: strings.TrimSpace(r), WritesOnly: writesOnly}
				if m, ok := strings.CutPrefix(g.Ghost, "mutex "); ok {
					g.Mutex, g.Ghost = strings.TrimSpace(m), ""
				} else if g.Ghost == "atomic" {
					g.Atomic, g.Ghost = true, ""
				}
				cf.Guards = append(cf.Guards, g)
			}
		case "onwrite":
			// onwrite PATTERN... set GHOST
			l, r, ok := strings.Cut(rest, " set ")
			if !ok {
				return fail(fmt.Errorf("onwrite PATTERNS set GHOST"))
			}
			for _, pat := range strings.Fields(l) {
				cf.OnWrite = append(cf.OnWrite, &GuardDecl{Pattern: pat, Ghost: strings.TrimSpace(r)})
			}
		case "stable":
			cf.Stable = append(cf.Stable, strings.Fields(rest)...)
		case "writers":
			// writers S.f [C08,C09] : F1 F2
			l, r, ok := strings.Cut(rest, ":")
			lf := strings.Fields(l)
			if !ok || len(lf) < 1 {
				return fail(fmt.Errorf("writers S.f [PROPS] : FUNC..."))
			}
			wd := &WritersDecl{Field: lf[0], Funcs: strings.Fields(r)}
			if len(lf) > 1 {
				for _, p := range strings.Split(strings.Trim(strings.Join(lf[1:], ""), "[]"), ",") {
					if p = strings.TrimSpace(p); p != "" {
						wd.Props = append(wd.Props, p)
					}
				}
			}
			cf.Writers = append(cf.Writers, wd)
		case "immutable":
			cf.Immutable = append(cf.Immutable, strings.Fields(rest)...)
		case "typeinv":
			f := strings.Fields(rest)
			if len(f) != 2 {
				return fail(fmt.Errorf("typeinv STRUCT PRED"))
			}
			cf.TypeInvs = append(cf.TypeInvs, &GuardDecl{Pattern: f[0], Ghost: f[1]})
		case "ghostfield":
			// ghostfield Struct.field type
			f := strings.Fields(rest)
			if len(f) != 2 {
				return fail(fmt.Errorf("bad ghostfield"))
			}
			s, fl, ok := strings.Cut(f[0], ".")
			if !ok {
				return fail(fmt.Errorf("bad ghostfield name"))
			}
			cf.GhostFields = append(cf.GhostFields, &GhostField{s, fl, f[1]})
		case "axiom":
			c, err := parseClause(rest, it.line)
			if err != nil {
				return fail(err)
			}
			cf.Axioms = append(cf.Axioms, c)
			cf.Assumptions = append(cf.Assumptions, fmt.Sprintf("axiom %s (%s:%d)", c.Src, shortPath(path), it.line))
		default:
			c := target()
			if c == nil {
				return fail(fmt.Errorf("%q outside a func block", kw))
			}
			switch kw {
			case "prop":
				c.Props = append(c.Props, strings.Fields(strings.ReplaceAll(rest, ",", " "))...)
			case "mode":
				c.Mode = rest
			case "requires":
				cl, err := parseClause(rest, it.line)
				if err != nil {
					return fail(err)
				}
				if cl.Name == "" {
					// stable under insertion of other clauses: named after the text
					cl.Name = "pre." + shortHash(cl.Src)
				}
				if cl.Free {
					cf.Assumptions = append(cf.Assumptions, fmt.Sprintf("free requires on %s: %s", c.Func, cl.Src))
				}
				c.Requires = append(c.Requires, cl)
			case "ensures":
				cl, err := parseClause(rest, it.line)
				if err != nil {
					return fail(err)
				}
				if cl.Name == "" {
					cl.Name = "post." + shortHash(cl.Src)
				}
				if cl.Free {
					cf.Assumptions = append(cf.Assumptions, fmt.Sprintf("free ensures on %s: %s", c.Func, cl.Src))
				}
				c.Ensures = append(c.Ensures, cl)
			case "use":
				c.Uses = append(c.Uses, strings.Fields(strings.ReplaceAll(rest, ",", " "))...)
			case "safetyprop":
				c.SafetyProps = strings.Fields(strings.ReplaceAll(rest, ",", " "))
			case "loopinv":
				cl, err := parseClause(rest, it.line)
				if err != nil {
					return fail(err)
				}
				if cl.Name == "" {
					cl.Name = fmt.Sprintf("loopinv.%d", len(c.LoopInvs)+1)
				}
				c.LoopInvs = append(c.LoopInvs, cl)
			case "assertbefore":
				// assertbefore "<statement text prefix>" [PROPS] name: EXPR
				if !strings.HasPrefix(rest, "\"") {
					return fail(fmt.Errorf("assertbefore needs a quoted anchor"))
				}
				j := strings.Index(rest[1:], "\"")
				if j < 0 {
					return fail(fmt.Errorf("assertbefore: unterminated anchor"))
				}
				cl, err := parseClause(strings.TrimSpace(rest[2+j:]), it.line)
				if err != nil {
					return fail(err)
				}
				if cl.Name == "" {
					cl.Name = fmt.Sprintf("assert.%d", len(c.AssertBefore)+1)
				}
				c.AssertBefore = append(c.AssertBefore, &AssertAnchor{Anchor: rest[1 : 1+j], Cl: cl})
			case "assertafter":
				// assertafter "<statement text prefix>" [PROPS] name: EXPR  (checked right after the statement)
				if !strings.HasPrefix(rest, "\"") {
					return fail(fmt.Errorf("assertafter needs a quoted anchor"))
				}
				ja := strings.Index(rest[1:], "\"")
				if ja < 0 {
					return fail(fmt.Errorf("assertafter: unterminated anchor"))
				}
				cla, err := parseClause(strings.TrimSpace(rest[2+ja:]), it.line)
				if err != nil {
					return fail(err)
				}
				if cla.Name == "" {
					cla.Name = fmt.Sprintf("assertafter.%d", len(c.AssertAfter)+1)
				}
				c.AssertAfter = append(c.AssertAfter, &AssertAnchor{Anchor: rest[1 : 1+ja], Cl: cla})
			case "ghostcall":
				if !strings.HasPrefix(rest, "\"") {
					return fail(fmt.Errorf("ghostcall needs a quoted anchor"))
				}
				jc := strings.Index(rest[1:], "\"")
				if jc < 0 {
					return fail(fmt.Errorf("ghostcall: unterminated anchor"))
				}
				gc := &GhostCall{Anchor: rest[1 : 1+jc]}
				bodyC := strings.TrimSpace(strings.TrimPrefix(strings.TrimSpace(rest[2+jc:]), ":"))
				if strings.HasPrefix(bodyC, "if ") {
					i := strings.Index(bodyC, " : ")
					if i < 0 {
						return fail(fmt.Errorf("ghostcall if without ' : '"))
					}
					ce, err := parser.ParseExpr(rewriteSpecSyntax(bodyC[3:i]))
					if err != nil {
						return fail(err)
					}
					gc.Cond = ce
					bodyC = bodyC[i+3:]
				}
				ce, err := parser.ParseExpr(rewriteSpecSyntax(bodyC))
				if err != nil {
					return fail(err)
				}
				call, ok := ce.(*ast.CallExpr)
				if !ok {
					return fail(fmt.Errorf("ghostcall needs LEMMA(args)"))
				}
				id, ok := call.Fun.(*ast.Ident)
				if !ok {
					return fail(fmt.Errorf("ghostcall needs LEMMA(args)"))
				}
				gc.Lemma, gc.Args, gc.Src = id.Name, call.Args, bodyC
				c.GhostCalls = append(c.GhostCalls, gc)
			case "ghostbefore":
				// ghostbefore "<statement text prefix>" : [if COND :] LHS = RHS  (ghost assignment just before the statement)
				if !strings.HasPrefix(rest, "\"") {
					return fail(fmt.Errorf("ghostbefore needs a quoted anchor"))
				}
				jb := strings.Index(rest[1:], "\"")
				if jb < 0 {
					return fail(fmt.Errorf("ghostbefore: unterminated anchor"))
				}
				anchorB := rest[1 : 1+jb]
				bodyB := strings.TrimSpace(strings.TrimPrefix(strings.TrimSpace(rest[2+jb:]), ":"))
				var condB ast.Expr
				if strings.HasPrefix(bodyB, "if ") {
					i := strings.Index(bodyB, " : ")
					if i < 0 {
						return fail(fmt.Errorf("ghostbefore if without ' : '"))
					}
					ce, err := parser.ParseExpr(rewriteSpecSyntax(bodyB[3:i]))
					if err != nil {
						return fail(err)
					}
					condB = ce
					bodyB = bodyB[i+3:]
				}
				lB, rB, okB := strings.Cut(bodyB, " = ")
				if !okB {
					return fail(fmt.Errorf("ghostbefore needs LHS = RHS"))
				}
				leB, err := parser.ParseExpr(lB)
				if err != nil {
					return fail(err)
				}
				reB, err := parser.ParseExpr(rewriteSpecSyntax(rB))
				if err != nil {
					return fail(err)
				}
				c.GhostBefore = append(c.GhostBefore, &GhostAnchor{Anchor: anchorB, Eff: &Effect{LHS: leB, RHS: reB, Src: bodyB, Cond: condB}})
			case "ghostafter":
				// ghostafter "<statement text prefix>" : [if COND :] LHS = RHS
				if !strings.HasPrefix(rest, "\"") {
					return fail(fmt.Errorf("ghostafter needs a quoted anchor"))
				}
				j := strings.Index(rest[1:], "\"")
				if j < 0 {
					return fail(fmt.Errorf("ghostafter: unterminated anchor"))
				}
				anchor := rest[1 : 1+j]
				body := strings.TrimSpace(rest[2+j:])
				body = strings.TrimSpace(strings.TrimPrefix(body, ":"))
				var cond ast.Expr
				if strings.HasPrefix(body, "if ") {
					i := strings.Index(body, " : ")
					if i < 0 {
						return fail(fmt.Errorf("ghostafter if without ' : '"))
					}
					ce, err := parser.ParseExpr(rewriteSpecSyntax(body[3:i]))
					if err != nil {
						return fail(err)
					}
					cond = ce
					body = body[i+3:]
				}
				if strings.HasPrefix(body, "bulk ") {
					// bulk Struct.field VAR = EXPR
					l, r, ok := strings.Cut(body[5:], " = ")
					f := strings.Fields(l)
					if !ok || len(f) != 2 {
						return fail(fmt.Errorf("ghostafter bulk Struct.field VAR = EXPR"))
					}
					re, err := parser.ParseExpr(rewriteSpecSyntax(r))
					if err != nil {
						return fail(err)
					}
					c.GhostAfter = append(c.GhostAfter, &GhostAnchor{Anchor: anchor, Eff: &Effect{RHS: re, Src: body, Cond: cond, BulkKey: f[0], BulkVar: f[1]}})
					break
				}
				l, r, ok := strings.Cut(body, " = ")
				if !ok {
					return fail(fmt.Errorf("ghostafter needs LHS = RHS"))
				}
				le, err := parser.ParseExpr(l)
				if err != nil {
					return fail(err)
				}
				re, err := parser.ParseExpr(rewriteSpecSyntax(r))
				if err != nil {
					return fail(err)
				}
				c.GhostAfter = append(c.GhostAfter, &GhostAnchor{Anchor: anchor, Eff: &Effect{LHS: le, RHS: re, Src: body, Cond: cond}})
			case "ghostentry":
				// ghostentry [if COND :] LHS = RHS
				gbody := rest
				var gcond ast.Expr
				if strings.HasPrefix(gbody, "if ") {
					i := strings.Index(gbody, " : ")
					if i < 0 {
						return fail(fmt.Errorf("ghostentry if without ' : '"))
					}
					ce, err := parser.ParseExpr(rewriteSpecSyntax(gbody[3:i]))
					if err != nil {
						return fail(err)
					}
					gcond = ce
					gbody = gbody[i+3:]
				}
				l, r, ok := strings.Cut(gbody, " = ")
				if !ok {
					return fail(fmt.Errorf("ghostentry needs LHS = RHS"))
				}
				le, err := parser.ParseExpr(l)
				if err != nil {
					return fail(err)
				}
				re, err := parser.ParseExpr(rewriteSpecSyntax(r))
				if err != nil {
					return fail(err)
				}
				c.GhostEntry = append(c.GhostEntry, &Effect{LHS: le, RHS: re, Src: rest, Cond: gcond})
			case "callers":
				// callers [PROPS] f1 f2 ... : only these functions may call this one
				r := rest
				if m := reProps.FindStringSubmatch(r); m != nil {
					for _, p := range strings.Split(m[1], ",") {
						c.CallersProps = append(c.CallersProps, strings.TrimSpace(p))
					}
					r = m[2]
				}
				c.Callers = append(c.Callers, strings.Fields(r)...)
			case "writes":
				c.Writes = append(c.Writes, strings.Fields(strings.ReplaceAll(rest, ",", " "))...)
			case "guards":
				c.GuardsOn = rest == "on"
			case "inline":
				c.Inline = true
			case "pure":
				c.Pure = true
			case "nosafety":
				c.NoSafety = true
			case "nomerge":
				c.NoMerge = true
			case "goinline":
				c.GoInline = true
			case "mutexes":
				c.MutexUnknown = rest == "unknown"
			case "only":
				c.Only = append(c.Only, strings.Fields(strings.ReplaceAll(rest, ",", " "))...)
			case "touches":
				c.Touches = append(c.Touches, strings.Fields(strings.ReplaceAll(rest, ",", " "))...)
			case "mergeexits":
				c.MergeExits = true
			case "maxpaths":
				c.MaxPaths, _ = strconv.Atoi(rest)
			case "trusted":
				c.Trusted = true
				cf.Assumptions = append(cf.Assumptions, fmt.Sprintf("trusted contract: %s (%s)", c.Func, rest))
			case "note":
				c.Notes = append(c.Notes, rest)
			case "caseonly":
				ce, err := parser.ParseExpr(rest)
				if err != nil {
					return fail(err)
				}
				c.CaseOnly = ce
			case "modifies":
				for _, m := range strings.Fields(rest) {
					if i := strings.Index(m, "->"); i > 0 {
						// instance-level frame: BASE->field (only that object's field)
						be, err := parser.ParseExpr(m[:i])
						if err != nil {
							return fail(err)
						}
						c.InstMods = append(c.InstMods, &InstMod{Base: be, Field: m[i+2:], Src: m})
						if c.Modifies == nil {
							c.Modifies = []string{}
						}
						continue
					}
					c.Modifies = append(c.Modifies, m)
				}
			case "effect":
				// effect [if COND :] LHS = RHS
				var cond ast.Expr
				body := rest
				if strings.HasPrefix(body, "if ") {
					i := strings.Index(body, " : ")
					if i < 0 {
						return fail(fmt.Errorf("effect if without ' : '"))
					}
					ce, err := parser.ParseExpr(rewriteSpecSyntax(body[3:i]))
					if err != nil {
						return fail(err)
					}
					cond = ce
					body = body[i+3:]
				}
				l, r, ok := strings.Cut(body, " = ")
				if !ok {
					return fail(fmt.Errorf("effect needs LHS = RHS"))
				}
				le, err := parser.ParseExpr(l)
				if err != nil {
					return fail(err)
				}
				re, err := parser.ParseExpr(rewriteSpecSyntax(r))
				if err != nil {
					return fail(err)
				}
				c.Effects = append(c.Effects, &Effect{LHS: le, RHS: re, Src: rest, Cond: cond})
			case "loop":
				// loop N invariant E | loop N unroll K | loop N decreases E | loop N modifies ...
				var f []string
				var ls *LoopSpec
				n := 0
				if strings.HasPrefix(rest, "\"") {
					// loop "<header text prefix>" kind ...
					j := strings.Index(rest[1:], "\"")
					if j < 0 {
						return fail(fmt.Errorf("loop: unterminated header text"))
					}
					hdr := rest[1 : 1+j]
					tail := strings.SplitN(strings.TrimSpace(rest[2+j:]), " ", 2)
					if len(tail) < 2 {
						return fail(fmt.Errorf("bad loop clause"))
					}
					f = []string{hdr, tail[0], tail[1]}
					if c.LoopsByText == nil {
						c.LoopsByText = map[string]*LoopSpec{}
					}
					ls = c.LoopsByText[hdr]
					if ls == nil {
						ls = &LoopSpec{}
						c.LoopsByText[hdr] = ls
						c.LoopTextOrder = append(c.LoopTextOrder, hdr)
					}
					n = 100 + len(c.LoopTextOrder)
					for i, h := range c.LoopTextOrder {
						if h == hdr {
							n = 101 + i
						}
					}
				} else {
					f = strings.SplitN(rest, " ", 3)
					if len(f) < 3 {
						return fail(fmt.Errorf("bad loop clause"))
					}
					var err error
					n, err = strconv.Atoi(f[0])
					if err != nil {
						return fail(err)
					}
					ls = c.Loops[n]
					if ls == nil {
						ls = &LoopSpec{}
						c.Loops[n] = ls
					}
				}
				var err error
				switch f[1] {
				case "invariant":
					cl, err := parseClause(f[2], it.line)
					if err != nil {
						return fail(err)
					}
					if cl.Name == "" {
						cl.Name = fmt.Sprintf("loop%d.inv.%d", n, len(ls.Invariants)+1)
					}
					ls.Invariants = append(ls.Invariants, cl)
				case "unroll":
					ls.Unroll, err = strconv.Atoi(strings.TrimSpace(f[2]))
					if err != nil {
						return fail(err)
					}
				case "decreases":
					cl, err := parseClause(f[2], it.line)
					if err != nil {
						return fail(err)
					}
					cl.Name = fmt.Sprintf("loop%d.decreases", n)
					ls.Decreases = cl
				case "modifies":
					ls.Modifies = append(ls.Modifies, strings.Fields(f[2])...)
				default:
					return fail(fmt.Errorf("bad loop clause kind %q", f[1]))
				}
			case "fresh":
				// fresh NAME [type] in LO..HI [split] [witness EXPR]
				fv := &FreshVar{Type: "int"}
				i := strings.Index(rest, " in ")
				if i < 0 {
					return fail(fmt.Errorf("fresh needs 'in'"))
				}
				nf := strings.Fields(rest[:i])
				fv.Name = nf[0]
				if len(nf) > 1 {
					fv.Type = nf[1]
				}
				r := strings.TrimSpace(rest[i+4:])
				if j := strings.Index(r, " witness "); j >= 0 {
					fv.WSrc = strings.TrimSpace(r[j+9:])
					fv.Witness, err = parser.ParseExpr(fv.WSrc)
					if err != nil {
						return fail(err)
					}
					r = strings.TrimSpace(r[:j])
				}
				if strings.HasSuffix(r, " split") {
					fv.Split = true
					r = strings.TrimSpace(strings.TrimSuffix(r, " split"))
				}
				lo, hi, ok := strings.Cut(r, "..")
				if !ok {
					return fail(fmt.Errorf("fresh range needs LO..HI"))
				}
				if fv.Lo, err = parseBig(lo); err != nil {
					return fail(err)
				}
				if fv.Hi, err = parseBig(hi); err != nil {
					return fail(err)
				}
				c.Fresh = append(c.Fresh, fv)
			case "subst":
				l, r, ok := strings.Cut(rest, " = ")
				if !ok {
					return fail(fmt.Errorf("subst needs NAME = EXPR"))
				}
				e, err := parser.ParseExpr(r)
				if err != nil {
					return fail(err)
				}
				c.Subst[strings.TrimSpace(l)] = e
				c.SubstSrc[strings.TrimSpace(l)] = r
			case "callback":
				// callback PARAM  — following requires/ensures lines apply to it until 'endcallback'
				// callback PARAM oneof M1 M2 ... — the argument is one of these methods of the
				// receiver (checked at every call site); a call through PARAM is treated with
				// what their contracts have in common
				f := strings.Fields(rest)
				pname := rest
				var oneOf []string
				if len(f) >= 3 && f[1] == "oneof" {
					pname = f[0]
					oneOf = f[2:]
				}
				cb := &Contract{Func: cur.Func + "#" + pname, Loops: map[int]*LoopSpec{}, Mode: cur.Mode, OneOf: oneOf}
				cur.Callbacks[pname] = cb
				if oneOf == nil {
					curCb = cb
				}
			case "endcallback":
				curCb = nil
			default:
				return fail(fmt.Errorf("unknown contract keyword %q", kw))
			}
		}
	}
	return nil
}

func shortPath(p string) string {
	if i := strings.LastIndex(p, "/"); i >= 0 {
		return p[i+1:]
	}
	return p
}

func (c *Contract) hasProp(p string) bool {
	for _, x := range c.Props {
		if x == p {
			return true
		}
	}
	return false
}

func (cl *Clause) inProp(c *Contract, p string) bool {
	if cl.Props == nil {
		return c.hasProp(p)
	}
	for _, x := range cl.Props {
		if x == p {
			return true
		}
	}
	return false
}

// quantified reports whether the clause contains a quantifier.
func (cl *Clause) quantified() bool {
	if len(cl.QVars) > 0 || cl.Optin {
		return true
	}
	q := false
	ast.Inspect(cl.Expr, func(n ast.Node) bool {
		if c, ok := n.(*ast.CallExpr); ok {
			if id, ok := c.Fun.(*ast.Ident); ok && (id.Name == "all" || id.Name == "allsel" || id.Name == "allabs" || id.Name == "exists" || id.Name == "allref" || id.Name == "allstr") {
				q = true
			}
		}
		return !q
	})
	return q
}

func (c *Contract) usesClause(callee, clause string) bool {
	for _, u := range c.Uses {
		if u == callee+"."+clause || u == callee+".*" || u == "*" {
			return true
		}
	}
	return false
}

// modifiesGhost: may the function change ghost global `name`?
// No modifies clause at all means "anything".
func (c *Contract) modifiesGhost(name string) bool {
	if c.Pure {
		return false
	}
	if len(c.Modifies) == 0 && len(c.Effects) == 0 && len(c.InstMods) == 0 {
		return true
	}
	for _, m := range c.Modifies {
		if m == "*" || m == "ghost.*" || m == "ghost."+name {
			return true
		}
	}
	return false
}

func shortHash(text string) string {
	h := fnv.New32a()
	h.Write([]byte(strings.Join(strings.Fields(text), " ")))
	return fmt.Sprintf("%04x", h.Sum32()&0xffff)
}
