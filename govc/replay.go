package main

// Replay: turn a solver model into an in-package Go test that calls the real
// function, injected with `go test -overlay` (nothing is written into /repo).

import (
	"bytes"
	"context"
	"encoding/json"
	"fmt"
	"go/ast"
	goprinter "go/printer"
	"go/token"
	"go/types"
	"math/big"
	"os"
	"os/exec"
	"path/filepath"
	"regexp"
	"strings"
	"time"
)

type replayResult struct {
	Confirmed bool
	Path      string
	Note      string
	Output    string
	Source    string
}

type replayFile struct {
	Property   string            `json:"property"`
	Obligation string            `json:"obligation"`
	Kind       string            `json:"kind"`
	At         string            `json:"at"`
	Goal       string            `json:"goal"`
	Model      map[string]string `json:"model"`
	Confirmed  bool              `json:"confirmed"`
	Note       string            `json:"note"`
	TestSource string            `json:"test_source"`
	Output     string            `json:"output"`
	Solver     string            `json:"solver"`
}

const maxReplayLen = 24

func bvLit(v int64, w int) string {
	return fmt.Sprintf("#x%0*x", w/4, uint64(v))
}

func parseBV(s string) (*big.Int, bool) {
	s = strings.TrimSpace(s)
	if strings.HasPrefix(s, "#x") {
		v, ok := new(big.Int).SetString(s[2:], 16)
		return v, ok
	}
	if strings.HasPrefix(s, "#b") {
		v, ok := new(big.Int).SetString(s[2:], 2)
		return v, ok
	}
	if strings.HasPrefix(s, "(- ") {
		v, ok := new(big.Int).SetString(strings.TrimSuffix(s[3:], ")"), 10)
		if ok {
			v.Neg(v)
		}
		return v, ok
	}
	v, ok := new(big.Int).SetString(s, 10)
	return v, ok
}

func signedOf(v *big.Int, w int) *big.Int {
	if v.Bit(w-1) == 1 {
		return new(big.Int).Sub(v, new(big.Int).Lsh(big.NewInt(1), uint(w)))
	}
	return v
}

type replayParam struct {
	name string
	typ  types.Type
	recv bool
}

// refineModel re-queries the failing obligation with small bounds on slice /
// string inputs and reads their elements.
func refineModel(o *Obligation, params []replayParam, isInt bool) (map[string]string, string) {
	script := o.smtKeep
	if script == "" {
		return nil, "no script kept"
	}
	i := strings.LastIndex(script, "(check-sat)")
	if i < 0 {
		return nil, "no check-sat"
	}
	head := script[:i]
	var extra, gets []string
	num := func(v int64) string {
		if isInt {
			return fmt.Sprint(v)
		}
		return bvLit(v, 64)
	}
	le := func(a, b string) string {
		if isInt {
			return fmt.Sprintf("(<= %s %s)", a, b)
		}
		return fmt.Sprintf("(bvsle %s %s)", a, b)
	}
	has := func(sym string) bool {
		return strings.Contains(head, "(declare-fun "+sym+" ")
	}
	addSlice := func(prefix string, arrExpr, offSym, lenSym string) {
		if offSym != "" {
			extra = append(extra, fmt.Sprintf("(assert (= %s %s))", offSym, num(0)))
		}
		extra = append(extra, fmt.Sprintf("(assert %s)", le(lenSym, num(maxReplayLen))))
		gets = append(gets, lenSym)
		for k := 0; k < maxReplayLen; k++ {
			gets = append(gets, fmt.Sprintf("(select %s %s)", arrExpr, num(int64(k))))
		}
	}
	for _, p := range params {
		base := "in." + p.name
		switch kindOf(p.typ) {
		case kSlice:
			if el, ok := p.typ.Underlying().(*types.Slice); ok {
				if w, _ := intInfo(el.Elem()); w == 8 && kindOf(el.Elem()) == kInt && has(base+".arr") {
					addSlice(base, base+".arr", base+".off", base+".len")
					if has(base + ".cap") {
						extra = append(extra, fmt.Sprintf("(assert (= %s.cap %s.len))", base, base))
					}
				}
			}
		case kString:
			if has(base) && strings.Contains(head, "(declare-fun gostr.len ") {
				ln := fmt.Sprintf("(gostr.len %s)", base)
				extra = append(extra, fmt.Sprintf("(assert %s)", le(ln, num(maxReplayLen))))
				gets = append(gets, ln)
				if strings.Contains(head, "(declare-fun gostr.arr ") {
					for k := 0; k < maxReplayLen; k++ {
						gets = append(gets, fmt.Sprintf("(select (gostr.arr %s) %s)", base, num(int64(k))))
					}
				}
			}
		case kRef:
			pt, ok := p.typ.Underlying().(*types.Pointer)
			if !ok {
				continue
			}
			stt, ok := pt.Elem().Underlying().(*types.Struct)
			if !ok || !has(base) {
				continue
			}
			sn := structName(pt.Elem())
			for fi := 0; fi < stt.NumFields(); fi++ {
				f := stt.Field(fi)
				h := "H0." + sn + "." + f.Name()
				switch kindOf(f.Type()) {
				case kInt, kBool:
					if has(h) {
						gets = append(gets, fmt.Sprintf("(select %s %s)", h, base))
					}
				case kSlice:
					if el, ok := f.Type().Underlying().(*types.Slice); ok {
						if w, _ := intInfo(el.Elem()); w == 8 && kindOf(el.Elem()) == kInt && has(h+".arr") && has(h+".len") {
							off := ""
							if has(h + ".off") {
								off = fmt.Sprintf("(select %s.off %s)", h, base)
							}
							addSlice(h, fmt.Sprintf("(select %s.arr %s)", h, base), off, fmt.Sprintf("(select %s.len %s)", h, base))
							if has(h + ".cap") {
								extra = append(extra, fmt.Sprintf("(assert (= (select %s.cap %s) (select %s.len %s)))", h, base, h, base))
							}
						}
					}
				}
			}
		}
	}
	// keep the original get-value terms too
	rest := script[i+len("(check-sat)"):]
	if j := strings.Index(rest, "(get-value ("); j >= 0 {
		inner := strings.TrimSpace(rest[j+len("(get-value (") : strings.LastIndex(rest, "))")])
		if inner != "" {
			gets = append(gets, splitTopLevel(inner)...)
		}
	}
	if len(gets) == 0 {
		return o.Model, ""
	}
	q := head + strings.Join(extra, "\n") + "\n(check-sat)\n(get-value (" + strings.Join(gets, " ") + "))\n"
	dir, _ := os.MkdirTemp("", "govc-refine")
	defer os.RemoveAll(dir)
	f := filepath.Join(dir, "q.smt2")
	os.WriteFile(f, []byte(q), 0o644)
	st, out, _ := runOne(context.Background(), solvers[0], f, 20*time.Second)
	if st != "sat" {
		os.WriteFile(f, []byte("(set-logic ALL)\n"+q), 0o644)
		st, out, _ = runOne(context.Background(), solvers[2], f, 20*time.Second)
	}
	if st != "sat" {
		return nil, "bounded re-query (slice/string inputs up to " + fmt.Sprint(maxReplayLen) + " bytes): " + st
	}
	return parseModelExprs(out), ""
}

func splitTopLevel(s string) []string {
	var out []string
	depth := 0
	start := 0
	inBar := false
	for i := 0; i < len(s); i++ {
		c := s[i]
		if c == '|' {
			inBar = !inBar
		}
		if inBar {
			continue
		}
		switch c {
		case '(':
			depth++
		case ')':
			depth--
		case ' ', '\n', '\t':
			if depth == 0 {
				if i > start {
					out = append(out, s[start:i])
				}
				start = i + 1
			}
		}
	}
	if start < len(s) {
		out = append(out, s[start:])
	}
	return out
}

var reValExpr = regexp.MustCompile(`\(\s*((?:\([^()]*(?:\([^()]*(?:\([^()]*\)[^()]*)*\)[^()]*)*\))|\|[^|]*\||[^\s()]+)\s+((?:#x[0-9a-fA-F]+|#b[01]+|true|false|\(- \d+\)|\d+))\s*\)`)

// parseModelExprs parses get-value output whose keys may be select terms.
func parseModelExprs(out string) map[string]string {
	m := map[string]string{}
	for _, mm := range reValExpr.FindAllStringSubmatch(out, -1) {
		k := strings.Join(strings.Fields(strings.Trim(mm[1], "|")), " ")
		m[k] = mm[2]
	}
	return m
}

func goIntLit(v *big.Int, t types.Type) string {
	w, signed := intInfo(t)
	if signed {
		v = signedOf(v, w)
	}
	ts := types.TypeString(t, func(p *types.Package) string { return "" })
	if signed && v.Cmp(new(big.Int).Neg(new(big.Int).Lsh(big.NewInt(1), uint(w-1)))) == 0 {
		return fmt.Sprintf("%s(-%s - 1)", ts, new(big.Int).Sub(new(big.Int).Lsh(big.NewInt(1), uint(w-1)), big.NewInt(1)))
	}
	return fmt.Sprintf("%s(%s)", ts, v.String())
}

func bytesLit(model map[string]string, arrExpr, lenKey string, isInt bool) (string, int, bool) {
	lv, ok := model[lenKey]
	if !ok {
		return "", 0, false
	}
	n, ok := parseBV(lv)
	if !ok {
		return "", 0, false
	}
	if !isInt {
		n = signedOf(n, 64)
	}
	if n.Sign() < 0 || n.Cmp(big.NewInt(maxReplayLen)) > 0 {
		return "", 0, false
	}
	var parts []string
	for k := 0; k < int(n.Int64()); k++ {
		var key string
		if isInt {
			key = fmt.Sprintf("(select %s %d)", arrExpr, k)
		} else {
			key = fmt.Sprintf("(select %s %s)", arrExpr, bvLit(int64(k), 64))
		}
		bv, ok := model[key]
		if !ok {
			return "", 0, false
		}
		b, ok := parseBV(bv)
		if !ok {
			return "", 0, false
		}
		parts = append(parts, fmt.Sprintf("0x%02x", b.Uint64()&0xff))
	}
	return "[]byte{" + strings.Join(parts, ", ") + "}", int(n.Int64()), true
}

// specToGo renders a contract expression as Go source.
func specToGo(e ast.Expr, resNames []string, maxLen int) (string, bool) {
	ok := true
	var rw func(n ast.Expr) ast.Expr
	rw = func(n ast.Expr) ast.Expr {
		switch v := n.(type) {
		case *ast.CallExpr:
			if id, isId := v.Fun.(*ast.Ident); isId {
				switch id.Name {
				case "old":
					if len(v.Args) == 1 {
						if a, isA := v.Args[0].(*ast.Ident); isA {
							return &ast.Ident{Name: "old_" + a.Name}
						}
						// old(len(x)) etc: rewrite idents inside
						inner := rwOld(v.Args[0])
						if inner != nil {
							return inner
						}
					}
					ok = false
					return n
				case "all":
					if len(v.Args) == 4 {
						iv, _ := v.Args[0].(*ast.Ident)
						if iv != nil {
							lo, _ := exprStr(rw(v.Args[1]))
							hi, _ := exprStr(rw(v.Args[2]))
							body, _ := exprStr(rw(v.Args[3]))
							src := fmt.Sprintf("func() bool { for %s := int(%s); %s < int(%s); %s++ { if !(%s) { return false } }; return true }()", iv.Name, lo, iv.Name, hi, iv.Name, body)
							return &ast.Ident{Name: src}
						}
					}
					ok = false
					return n
				case "allref", "exists", "istype", "unbox", "asref", "toref", "alloc", "sameheap":
					ok = false
					return n
				}
			}
			nc := *v
			nc.Args = nil
			for _, a := range v.Args {
				nc.Args = append(nc.Args, rw(a))
			}
			return &nc
		case *ast.BinaryExpr:
			nb := *v
			nb.X, nb.Y = rw(v.X), rw(v.Y)
			return &nb
		case *ast.UnaryExpr:
			nu := *v
			nu.X = rw(v.X)
			return &nu
		case *ast.ParenExpr:
			np := *v
			np.X = rw(v.X)
			return &np
		case *ast.IndexExpr:
			ni := *v
			ni.X, ni.Index = rw(v.X), rw(v.Index)
			return &ni
		case *ast.SelectorExpr:
			ns := *v
			ns.X = rw(v.X)
			return &ns
		case *ast.SliceExpr:
			ns := *v
			ns.X = rw(v.X)
			if v.Low != nil {
				ns.Low = rw(v.Low)
			}
			if v.High != nil {
				ns.High = rw(v.High)
			}
			return &ns
		}
		return n
	}
	out := rw(e)
	s, ok2 := exprStr(out)
	return s, ok && ok2
}

func rwOld(e ast.Expr) ast.Expr {
	okAll := true
	var rw func(n ast.Expr) ast.Expr
	rw = func(n ast.Expr) ast.Expr {
		switch v := n.(type) {
		case *ast.Ident:
			switch v.Name {
			case "len", "cap", "true", "false", "nil":
				return v
			}
			if isLowerIdent(v.Name) {
				return &ast.Ident{Name: "old_" + v.Name}
			}
			return v
		case *ast.CallExpr:
			nc := *v
			nc.Args = nil
			for _, a := range v.Args {
				nc.Args = append(nc.Args, rw(a))
			}
			return &nc
		case *ast.IndexExpr:
			ni := *v
			ni.X, ni.Index = rw(v.X), rw(v.Index)
			return &ni
		case *ast.BinaryExpr:
			nb := *v
			nb.X, nb.Y = rw(v.X), rw(v.Y)
			return &nb
		case *ast.ParenExpr:
			np := *v
			np.X = rw(v.X)
			return &np
		case *ast.BasicLit:
			return v
		}
		okAll = false
		return n
	}
	r := rw(e)
	if !okAll {
		return nil
	}
	return r
}

func isLowerIdent(s string) bool { return s != "" && s[0] >= 'a' && s[0] <= 'z' }

func exprStr(e ast.Expr) (string, bool) {
	var buf bytes.Buffer
	if err := goprinter.Fprint(&buf, token.NewFileSet(), e); err != nil {
		return "", false
	}
	return buf.String(), true
}

// tryReplay builds and runs a replay test for a failing obligation.
func tryReplay(eng *Engine, o *Obligation, dir, prop, repo string) *replayResult {
	res := &replayResult{}
	fobj := eng.fobj[o.Func]
	c := eng.cf.Contracts[o.Func]
	if fobj == nil || c == nil || c.Lemma {
		res.Note = "no replay harness for this obligation (lemma or unbound function)"
		return res
	}
	if o.Status != "sat" {
		res.Note = "solver gave no model (" + o.Status + ")"
		return res
	}
	sig := fobj.Type().(*types.Signature)
	isInt := c.Mode == "int"
	var params []replayParam
	if r := sig.Recv(); r != nil {
		params = append(params, replayParam{r.Name(), r.Type(), true})
	}
	for i := 0; i < sig.Params().Len(); i++ {
		p := sig.Params().At(i)
		params = append(params, replayParam{p.Name(), p.Type(), false})
	}
	model, note := refineModel(o, params, isInt)
	if model == nil {
		res.Note = note
		return res
	}
	// fresh-variable substitutions: compute parameter values from fresh vars
	fresh := map[string]*big.Int{}
	for _, f := range c.Fresh {
		if v, ok := model["fresh."+f.Name]; ok {
			if b, ok := parseBV(v); ok {
				if !isInt {
					b = signedOf(b, 64)
				}
				fresh[f.Name] = b
			}
		}
	}
	// split values from the case label
	if o.Case != "" {
		for _, kv := range strings.Split(o.Case, ",") {
			k, v, ok := strings.Cut(kv, "=")
			if ok {
				if b, ok := new(big.Int).SetString(v, 10); ok {
					fresh[k] = b
				}
			}
		}
	}
	var decl strings.Builder
	var olds strings.Builder
	var callArgs []string
	recvExpr := ""
	maxLen := 8
	qual := func(p *types.Package) string { return "" }
	for _, p := range params {
		ts := types.TypeString(p.typ, qual)
		name := p.name
		if name == "" || name == "_" {
			name = "p_" + fmt.Sprint(len(callArgs))
		}
		var val string
		if se, ok := c.Subst[p.name]; ok {
			v, err := evalWithFresh(se, fresh)
			if err != nil {
				res.Note = "cannot evaluate substitution for " + p.name + ": " + err.Error()
				return res
			}
			val = goIntLit(new(big.Int).And(v, new(big.Int).Sub(new(big.Int).Lsh(big.NewInt(1), 64), big.NewInt(1))), p.typ)
		} else {
			switch kindOf(p.typ) {
			case kInt:
				mv, ok := model["in."+p.name]
				if !ok {
					mv = "0"
				}
				b, _ := parseBV(mv)
				if b == nil {
					b = big.NewInt(0)
				}
				if isInt {
					w, _ := intInfo(p.typ)
					b = new(big.Int).And(b, new(big.Int).Sub(new(big.Int).Lsh(big.NewInt(1), uint(w)), big.NewInt(1)))
				}
				val = goIntLit(b, p.typ)
			case kBool:
				val = "false"
				if model["in."+p.name] == "true" {
					val = "true"
				}
			case kSlice:
				lit, n, ok := bytesLit(model, "in."+p.name+".arr", "in."+p.name+".len", isInt)
				if !ok {
					if model["in."+p.name+".nil"] == "true" {
						lit, n, ok = "nil", 0, true
					}
				}
				if !ok {
					res.Note = "cannot build slice input " + p.name + " from the model"
					return res
				}
				if n > maxLen {
					maxLen = n
				}
				val = lit
				if lit != "nil" {
					val = ts + "(" + lit + ")"
				}
			case kString:
				lit, _, ok := bytesLit(model, "(gostr.arr in."+p.name+")", "(gostr.len in."+p.name+")", isInt)
				if !ok {
					lit = "[]byte{}"
				}
				val = ts + "(" + lit + ")"
			case kRef:
				pt, isPtr := p.typ.Underlying().(*types.Pointer)
				if !isPtr {
					res.Note = "unsupported parameter type " + ts
					return res
				}
				stt, isStruct := pt.Elem().Underlying().(*types.Struct)
				if !isStruct {
					res.Note = "unsupported parameter type " + ts
					return res
				}
				sn := structName(pt.Elem())
				var fields []string
				for fi := 0; fi < stt.NumFields(); fi++ {
					f := stt.Field(fi)
					h := "H0." + sn + "." + f.Name()
					switch kindOf(f.Type()) {
					case kInt:
						if mv, ok := model[fmt.Sprintf("(select %s in.%s)", h, p.name)]; ok {
							b, _ := parseBV(mv)
							if isInt {
								w, _ := intInfo(f.Type())
								b = new(big.Int).And(b, new(big.Int).Sub(new(big.Int).Lsh(big.NewInt(1), uint(w)), big.NewInt(1)))
							}
							fields = append(fields, fmt.Sprintf("%s: %s", f.Name(), goIntLit(b, f.Type())))
						}
					case kBool:
						if mv, ok := model[fmt.Sprintf("(select %s in.%s)", h, p.name)]; ok {
							fields = append(fields, fmt.Sprintf("%s: %s", f.Name(), mv))
						}
					case kSlice:
						lit, n, ok := bytesLit(model, fmt.Sprintf("(select %s.arr in.%s)", h, p.name), fmt.Sprintf("(select %s.len in.%s)", h, p.name), isInt)
						if ok {
							if n > maxLen {
								maxLen = n
							}
							fields = append(fields, fmt.Sprintf("%s: %s", f.Name(), lit))
						}
					}
				}
				val = fmt.Sprintf("&%s{%s}", types.TypeString(pt.Elem(), qual), strings.Join(fields, ", "))
			default:
				res.Note = "unsupported parameter type " + ts
				return res
			}
		}
		fmt.Fprintf(&decl, "\tvar %s %s = %s\n\t_ = %s\n", name, ts, val, name)
		if kindOf(p.typ) == kSlice {
			fmt.Fprintf(&olds, "\told_%s := append(%s(nil), %s...)\n\t_ = old_%s\n", name, ts, name, name)
		} else {
			fmt.Fprintf(&olds, "\told_%s := %s\n\t_ = old_%s\n", name, name, name)
		}
		if p.recv {
			recvExpr = name
		} else {
			callArgs = append(callArgs, name)
		}
	}
	resNames := resultNames(sig)
	var resDecl strings.Builder
	for i, n := range resNames {
		fmt.Fprintf(&resDecl, "\tvar %s %s\n\t_ = %s\n", n, types.TypeString(sig.Results().At(i).Type(), qual), n)
	}
	callee := fobj.Name()
	if recvExpr != "" {
		callee = recvExpr + "." + callee
	}
	call := callee + "(" + strings.Join(callArgs, ", ")
	if sig.Variadic() {
		call += "..."
	}
	call += ")"
	if len(resNames) > 0 {
		call = strings.Join(resNames, ", ") + " = " + call
	}
	// clauses
	var checks strings.Builder
	for _, en := range c.Ensures {
		if en.Free {
			continue
		}
		src, ok := specToGo(en.Expr, resNames, maxLen)
		if !ok {
			fmt.Fprintf(&checks, "\tfmt.Println(\"REPLAY-CLAUSE-SKIPPED %s\")\n", en.Name)
			continue
		}
		if len(en.QVars) > 0 {
			loopHead := ""
			loopTail := ""
			for _, qv := range en.QVars {
				if qv.Type != "int" {
					ok = false
				}
				loopHead += fmt.Sprintf("for %s := -2; %s <= %d; %s++ { ", qv.Name, qv.Name, maxLen+2, qv.Name)
				loopTail += " }"
			}
			if !ok {
				fmt.Fprintf(&checks, "\tfmt.Println(\"REPLAY-CLAUSE-SKIPPED %s\")\n", en.Name)
				continue
			}
			src = fmt.Sprintf("func() (ok bool) { defer func() { if recover() != nil { ok = true } }(); %s if !(%s) { return false } %s; return true }()", loopHead, src, loopTail)
		}
		fmt.Fprintf(&checks, "\tfmt.Printf(\"REPLAY-CLAUSE %s %%v\\n\", %s)\n", en.Name, src)
	}
	var src strings.Builder
	fmt.Fprintf(&src, "//go:build verif\n\npackage redisemu\n\nimport (\n\t\"fmt\"\n\t\"testing\"\n)\n\n")
	fmt.Fprintf(&src, "// replay of obligation %s (%s)\nfunc TestGovcReplay(t *testing.T) {\n", o.Name, prop)
	src.WriteString(decl.String())
	src.WriteString(olds.String())
	src.WriteString(resDecl.String())
	fmt.Fprintf(&src, "\tpanicked := false\n\tvar pv any\n\tfunc() {\n\t\tdefer func() {\n\t\t\tif r := recover(); r != nil {\n\t\t\t\tpanicked = true\n\t\t\t\tpv = r\n\t\t\t}\n\t\t}()\n\t\t%s\n\t}()\n", call)
	fmt.Fprintf(&src, "\tif panicked {\n\t\tfmt.Printf(\"REPLAY-PANIC %%v\\n\", pv)\n\t\treturn\n\t}\n\tfmt.Println(\"REPLAY-RETURNED\")\n")
	src.WriteString(checks.String())
	src.WriteString("}\n")
	res.Source = src.String()
	out, err := runReplaySource(res.Source, repo)
	res.Output = out
	if err != nil && !strings.Contains(out, "REPLAY-") {
		res.Note = "replay test did not run: " + err.Error()
	} else {
		clauseFalse := strings.Contains(out, "REPLAY-CLAUSE "+o.Clause+" false")
		panicked := strings.Contains(out, "REPLAY-PANIC")
		// a panic only confirms an obligation about that kind of panic; inputs
		// built from a model are shallow, so an unrelated panic proves nothing
		kindWord := map[string]string{"index": "index out of range", "slice": "slice bounds out of range", "slice3": "slice bounds out of range",
			"nil": "nil pointer", "typeassert": "interface conversion", "makesize": "makeslice", "divzero": "divide by zero",
			"hashable-key": "unhashable", "negshift": "negative shift", "nilmap": "nil map", "panic": ""}
		matchPanic := false
		if panicked && strings.HasPrefix(o.Clause, "safety.") {
			what := strings.TrimPrefix(o.Clause, "safety.")
			if i := strings.Index(what, "("); i >= 0 {
				what = what[:i]
			}
			if w, ok := kindWord[what]; ok && strings.Contains(out, w) {
				matchPanic = true
			}
		}
		switch o.Kind {
		case "post":
			res.Confirmed = clauseFalse
		case "safety":
			res.Confirmed = matchPanic
		default:
			res.Confirmed = false
		}
		if res.Confirmed {
			res.Note = "counterexample reproduced on the real code"
		} else {
			res.Note = "model did not reproduce on the real code"
		}
	}
	os.MkdirAll(dir, 0o755)
	res.Path = filepath.Join(dir, fmt.Sprintf("%s-%s.json", prop, sanitize(o.Name)))
	rf := &replayFile{Property: prop, Obligation: o.Name, Kind: o.Kind, At: o.Pos, Goal: o.GoalText, Model: model, Confirmed: res.Confirmed, Note: res.Note, TestSource: res.Source, Output: res.Output, Solver: o.Solver + ": " + o.Status}
	data, _ := json.MarshalIndent(rf, "", " ")
	os.WriteFile(res.Path, data, 0o644)
	return res
}

func evalWithFresh(e ast.Expr, fresh map[string]*big.Int) (*big.Int, error) {
	switch x := e.(type) {
	case *ast.Ident:
		if v, ok := fresh[x.Name]; ok {
			return v, nil
		}
		return nil, fmt.Errorf("unknown name %s", x.Name)
	case *ast.BasicLit:
		return evalConstExpr(x)
	case *ast.ParenExpr:
		return evalWithFresh(x.X, fresh)
	case *ast.BinaryExpr:
		a, err := evalWithFresh(x.X, fresh)
		if err != nil {
			return nil, err
		}
		b, err := evalWithFresh(x.Y, fresh)
		if err != nil {
			return nil, err
		}
		switch x.Op {
		case token.ADD:
			return new(big.Int).Add(a, b), nil
		case token.SUB:
			return new(big.Int).Sub(a, b), nil
		case token.MUL:
			return new(big.Int).Mul(a, b), nil
		}
	}
	return nil, fmt.Errorf("unsupported substitution expression")
}

func runReplaySource(src, repo string) (string, error) {
	dir, err := os.MkdirTemp("", "govc-replay")
	if err != nil {
		return "", err
	}
	defer os.RemoveAll(dir)
	tf := filepath.Join(dir, "zz_govc_replay_test.go")
	os.WriteFile(tf, []byte(src), 0o644)
	ov := map[string]any{"Replace": map[string]string{filepath.Join(repo, "zz_govc_replay_test.go"): tf}}
	data, _ := json.Marshal(ov)
	of := filepath.Join(dir, "overlay.json")
	os.WriteFile(of, data, 0o644)
	ctx, cancel := context.WithTimeout(context.Background(), 180*time.Second)
	defer cancel()
	cmd := exec.CommandContext(ctx, "go", "test", "-tags", "verif", "-overlay", of, "-vet=off", "-count=1", "-v", "-timeout", "60s", "-run", "^TestGovcReplay$", ".")
	cmd.Dir = repo
	cmd.Env = append(os.Environ(), "GOFLAGS=-mod=mod", "GOPROXY=off", "GOSUMDB=off", "GOTOOLCHAIN=local")
	var buf bytes.Buffer
	cmd.Stdout = &buf
	cmd.Stderr = &buf
	err = cmd.Run()
	out := buf.String()
	if len(out) > 6000 {
		out = out[:6000]
	}
	return out, err
}
