#!/bin/bash
# usage: check.sh <property-id> [quick|thorough]
export GOFLAGS=-mod=mod GOPROXY=off GOSUMDB=off GOTOOLCHAIN=local
cd /verif
if [ ! -x /verif/bin/govc ] || [ -n "$(find /verif/govc -name '*.go' -newer /verif/bin/govc 2>/dev/null | head -1)" ]; then
  (cd /verif/govc && go build -o /verif/bin/govc .) || { echo "govc build failed" >&2; exit 2; }
fi
TIER="${2:-${VERIF_TIER:-quick}}"
exec /verif/bin/govc check -tier "$TIER" "$1"
