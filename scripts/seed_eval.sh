#!/bin/bash
# usage: seed_eval.sh <seed-dir (patch.diff, demo_test.go)> <property> [more properties...]
# Confirms a seeded change (compiles, baseline passes, demo fails with / passes without) on a
# scratch copy of /repo, then runs the property checks against the changed copy.
export GOFLAGS=-mod=mod GOPROXY=off GOSUMDB=off GOTOOLCHAIN=local
S="$1"; shift
D=$(mktemp -d /var/tmp/verif-scratch.XXXXXX)
trap 'rm -rf "$D"' EXIT
rsync -a --exclude .git /repo/ "$D/"
cd "$D"
if ! patch -p1 -s --dry-run < "$S/patch.diff" >/dev/null 2>&1; then echo "SEED patch does not apply to current /repo"; patch -p1 --dry-run < "$S/patch.diff" | tail -3; exit 3; fi
cp "$S/demo_test.go" "$D/zz_seed_demo_test.go"
RUN='^TestSeedDemo'
go test -vet=off -count=1 -timeout 120s -run "$RUN" . > "$D/.demo_without.log" 2>&1; W=$?
patch -p1 -s < "$S/patch.diff"
go build ./... || { echo "SEED does not compile"; exit 3; }
go test -vet=off -count=1 -timeout 120s -run "$RUN" . > "$D/.demo_with.log" 2>&1; M=$?
rm -f "$D/zz_seed_demo_test.go"
go test -vet=off -count=1 -timeout 10m -run "$(cat /verif/scripts/baseline_tests.regex)" . > "$D/.base.log" 2>&1; B=$?
echo "SEED facts: demo_without_change_exit=$W (want 0) demo_with_change_exit=$M (want !=0) baseline_with_change_exit=$B (want 0)"
for P in "$@"; do
  /verif/bin/govc check -no-evidence -repo "$D" "$P" 2>&1 | grep "VIOLATION\|^property\|govc:" | cut -c1-330
done
