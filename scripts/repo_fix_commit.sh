#!/bin/bash
# usage: repo_fix_commit.sh "<message starting with fix:>" file...
# commits only the named source files (never the zz_*_verif.go hook files) after running the baseline tests
set -e
export GOFLAGS=-mod=mod GOPROXY=off GOSUMDB=off GOTOOLCHAIN=local
cd /repo
msg="$1"; shift
go build ./...
go test -vet=off -count=1 -timeout 10m -run "$(cat /verif/scripts/baseline_tests.regex)" . | tail -1
git add "$@"
git commit -qm "$msg"
git log --stat --format=%s -n 1 | head -6
