#!/usr/bin/env python3
"""Rewrites the numeric columns of the DESIGN.md B.1 table from evidence/*.json (last column is kept)."""
import json,re
s=open('/verif/DESIGN.md').read()
def row(m):
    pid=m.group(1)
    try: d=json.load(open('/verif/evidence/%s.json'%pid))['coverage']
    except Exception: return m.group(0)
    return '| %s | %s | %s | %s |%s' % (pid, d['obligations'], d['obligation_groups'], (len(d['functions_under_contract']) if isinstance(d['functions_under_contract'],list) else d['functions_under_contract']), m.group(5))
s2=re.sub(r'^\| (C\d\d) \| (\d+) \| (\d+) \| (\d+) \|(.*)$', row, s, flags=re.M)
open('/verif/DESIGN.md','w').write(s2)
print('rows changed:', sum(1 for a,b in zip(s.splitlines(),s2.splitlines()) if a!=b))
