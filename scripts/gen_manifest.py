#!/usr/bin/env python3
"""Writes /verif/MANIFEST.json from the table below (single source of truth)."""
import json, subprocess

CLAIMED = {
 "C18": dict(
  text="Contract-based deductive proof of the real bit-field primitives: extractBitfield and setBitfield against an executable bit-array specification for every (offset mod 8, width) and every byte offset/content (512-case complete split, bit-vector semantics), signExtend / isSignedSumOverflow / isUnsignedOverflow / saturateValue against range specifications for every width; all implicit Go safety conditions (index bounds, shifts) of those functions.",
  note="Trusted: govc (our VC generator), the SMT solvers, GOARCH=amd64. BITCOUNT's range normalisation is under contract (panic-free for every start/end/unit, empty value counts 0; two defects repaired). fnBitfield/bitfieldWrite argument plumbing and the BITPOS/BITOP loops are not; evidence lists what is.",
  design="DESIGN.md §6 C18"),
}
CLAIMED.update({
 "C01": dict(
  text="Deductive proof (cursor discipline) for the real RESP deserializer: findNextLine returns the first CRLF at or after the cursor (loop invariant, all buffer contents), peekBulkLine consumes exactly the declared length and checks the trailing CRLF without any index wrap (64-bit vector semantics), every value-level parser advances the cursor monotonically, strictly on success, never past the buffer, and deserializeNext reports exactly the number of bytes consumed. This is the sequential core of 'consume exactly the parsed length, keep the rest'. The connection's receive path is under contract as well: every socket read goes into a buffer the call allocated itself (ownership condition, so unparsed bytes kept from earlier reads cannot be overwritten), a command consumes exactly the byte count the parser reported (0 < n <= pending bytes), and an invalid or incomplete parse reports length 0.",
  note="Not decided here: TCP delivery/scheduling, the goroutine hand-off in clientCxn.run, reply serialisation and CR/LF-freedom of error strings, malformed input that is neither complete nor answerable (the connection waits - see DESIGN B.8). Slices are values in the verifier's memory model; the freshness of the read buffer is the stated ownership condition. Trusted: govc, SMT solvers; strconv.ParseInt modelled by uninterpreted parseOK/parseVal; net.Conn.Read stub.",
  design="DESIGN.md §6 C01"),
 "C13": dict(
  text="Deductive no-panic proof for everything the RESP parser does with client bytes: every index, slice, nil dereference, type assertion, make size and map-key hashability condition in the 25 deserializer functions (and the bit-field primitives) is an obligation discharged for all inputs; value-level parsers only return known RESP dynamic types. Five crashes reachable from the socket were found by these obligations and repaired (known_findings.txt).",
  note="Covers the deserializer, the bit-field primitives, the dictionary, BITCOUNT/GETRANGE/SETRANGE handlers and every store method; about 80 safety obligations are UNDECIDED and listed in the evidence - mostly type assertions on the argument map produced by the grammar-driven parser (no contract states the grammar) and sizes derived from counters assumed equal to element counts. 'Bounded time' and 'every request is answered' are not contract-level statements (malformed input makes a connection wait, DESIGN B.8). Trusted: govc, solvers, helper stubs listed in evidence. Known open defect with the same flavour: C04's unbounded table growth.",
  design="DESIGN.md §6 C13"),
 "C17": dict(
  text="Deductive proof of one SCAN/HSCAN/SSCAN step on the real dictScanUnlocked for every table size 2^4..2^31 (ghost instrumentation of first/next bucket): the step starts at the bucket of the cursor masked to the table, visits buckets in strictly increasing index order, skips only empty buckets between visits (quantified inner-loop invariant), and returns the bit-reversed index of the next bucket (0 at the end). Plus the arithmetic the full-iteration guarantee rests on, for every table size 2^4..2^31: hashToIndex places a key at Reverse32(hash)>>(32-k) inside the table (proved on the real function), cursor/index round trip, masking to a smaller table moves the normalised position back to the start of the containing bucket, growing splits bucket i into 2i,2i+1, and the successor of the last bucket is cursor 0 (bit-vector lemmas).",
  note="The composition lemma over steps (full iteration returns every stable element) is argued from the step contract and the lemmas, not machine-checked; the reply string built from the cursor and MATCH/TYPE filtering are not covered. Trusted: govc, solvers.",
  design="DESIGN.md §6 C17"),
})
CLAIMED.update({
 "C08": dict(
  text="Deductive proof of the lock discipline that atomicity rests on, for all 111 store methods (the real bodies, every path incl. early returns and deferred unlocks): every read or write of store state (keyspace table, key objects, list nodes, hash/set tables, wait table) happens while the store lock is held (ghost 'held'), the lock is acquired at most once per command and released on every exit, helpers that assume the lock are only called with it, and typed accessors/key objects keep the tag-payload invariant. Linearizability then follows by the standard argument: each command's effect and reply are computed inside one critical section of one mutex.",
  note="The composition step (one critical section per command => linearizable) is an argument over the proved per-method obligations, not itself machine-checked; the Go mutex and memory model are trusted; command ids are proved non-zero (0 is the idle value of the exclusive-owner word) but their uniqueness among live commands is a stated assumption; the two-store lock order of COPY/MOVE across databases is undecided (single ghost lock bit); multi-key TOUCH/BLPOP take the lock once per key (DESIGN B.8). The keyspace dictionary is verified (C04). Six methods that touched the key object after unlocking were found and repaired (known_findings.txt).",
  design="DESIGN.md §6 C08"),
 "C16": dict(
  text="Deductive guard discipline: every access to a field with a declared guard (all store state, guarded by the store lock) in the 111 store methods and the key-object helpers carries a discharged obligation that the guard is held; two such accesses are therefore ordered by the mutex. Same obligations as C08, claimed here for the data-race reading.",
  note="Covers store state only: per-connection state read by other connections (CLIENT LIST/INFO), info counters, the shared command grammar, package counters and channel-ordered hand-offs are not yet under a declared guard and are not decided; a proved guard discipline is a sufficient condition for the declared fields only, it is not a run of the race detector.",
  design="DESIGN.md §6 C16"),
})
CLAIMED.update({
 "C19": dict(
  text="Deductive proof of the dirty-marking half of persistence for all 111 store methods: on every path of every method, if the method changed what a key holds (any write to a key object's type/payload/deadline, a list node or list header, or any store/remove on a hash/set table or the keyspace table — tracked by a ghost bit set at the writes themselves), then the keyspace's dirty flag is set when the method returns, so the saver will write the change. Helpers are proved modularly (monotone dirty flag, 'mutated => dirty' per helper, loop invariants). Eight mutators that changed data without marking dirty were found and repaired. Snapshot files: the file system is ghost state driven by trusted stubs of os.Create/Rename/Remove/Close and gob Encode/Decode; save writes one header announcing exactly the number of occupied buckets, then per key a key header followed by one payload of the Go type its type flag selects (loop invariant counting occupied buckets), into a temporary file that replaces the live name only when closed, complete and error-free - no file system effect ever touches the live name otherwise (crash atomicity; the pinned tree truncated the live file in place: repaired); load reads the same shape, carries key, id, flags, deadlines and payload type of every record into the store, restores the version counter and clean flag, and leaves the store untouched on any error.",
  note="Not decided: the gob codec round trip (uninterpreted), fsync/power-loss ordering, the OS. 'count equals the number of occupied buckets' is an assumed dictionary invariant. Element order of lists inside a payload and the round-trip lemma load(save(s)) = s are not machine-checked. Violations of these heap-level obligations are reported with the solver's reason but without a replayed input (no-failing-input-found).",
  design="DESIGN.md §6 C19"),
 "C10": dict(
  text="Deductive proof of the version discipline WATCH relies on, for all 111 store methods: whenever a method changes what a key holds, it also gives a key a new version (dataObjectNumber bump through newStoreKeyUnlocked/copy/move/setModified), removes a key from the keyspace, or its version touch found the key absent; helpers are proved modularly with monotone ghost bits. The in-place mutators (lists, hashes, sets, expiry) did not bump the version at all and hasChangedUnlocked ignored expiry; both were repaired.",
  note="Partial and structural: the ghost bits are per command, not per key, so a multi-key command that bumps one key and mutates another in place is not distinguished; getIds/hasChangedUnlocked/isAbortedExecUnlocked consistency and the EXEC-aborts-iff lemma are not under contract. getStoreKey is a trusted contract; the dictionary is verified (C04).",
  design="DESIGN.md §6 C10"),
})
CLAIMED.update({
 "C09": dict(
  text="Deductive proof of the MULTI/EXEC state machine on the real handlers: MULTI opens an empty queue or (nested) fails leaving it untouched; DISCARD/UNWATCH/EXEC-without-MULTI behave as stated; EXEC on every path (no MULTI, a command rejected while queueing, a watched key changed, normal) leaves the connection in normal mode with an empty watch table and a cleared failure flag, releases the exclusive store lock, holds it across the whole replay loop, dispatches exactly one handler per queued command in queue order (ghost dispatch counter + loop invariant) and dispatches nothing when queueing had failed. Two defects (aborted EXEC stays in MULTI; rejected command does not abort) were found and repaired.",
  note="prepare()'s queueing branch and the per-command QUEUED reply are not yet under contract (the function drags in the whole argument parser); 'no other client interleaves' rests on the exclusive-lock obligations here plus C08's lock discipline; dispatchHandler's claim that handlers leave cmdQueueFailed alone is a stated (free) assumption.",
  design="DESIGN.md §6 C09"),
})
CLAIMED.update({
 "C15": dict(
  text="Deductive proof that a RESP2 connection only ever receives RESP2 types and that the RESP2 reply is the down-conversion of the RESP3-shaped result: resp3To2 (real code, recursive calls through the contract = structural induction) returns a value satisfying the inductively defined predicate 'only RESP2 types at every depth'; scalars unchanged, boolean -> integer 1/0, double / big number / verbatim text -> bulk string, null -> nil, blob error -> error, every aggregate -> array, with loop invariants over the element loops of the array/pairs/map/set converters; the dispatcher applies the conversion exactly when the connection's protocol is 2 and passes the handler's value through otherwise; HELLO sets the version of its own connection to 2 or 3 or leaves it unchanged. Three conversion defects and the HELLO range check were found and repaired.",
  note="Order/element-wise equality with the RESP3 reply is proved only as far as the type structure (lengths of array/pairs/map results, per-type mapping); values held in Go maps (sets, attribute maps) are not modelled, and the attribute-map converter's clause is a stated assumption. That handlers never read respVersion is not yet checked. nativeValueToResp and the String methods are trusted contracts.",
  design="DESIGN.md §6 C15"),
})
CLAIMED.update({
 "C14": dict(
  text="Deductive proof on the real database-table code: createDbUnlocked/getDb accept exactly indexes 0..15, never replace an existing database object and keep the table invariant (quantified over all indexes); selectDb changes the connection's selection only on success (rejected index leaves selectedDb and the cached store pointer untouched) and on success caches exactly the table's object for that index; flush empties the caller's database object in place under its own lock (count 0, marked dirty, lock released), flushDb leaves the table itself unchanged (every index maps to the same object as before) and empties the object of the requested index. The old drop-and-recreate flush (other connections kept the stale object) was found and repaired.",
  note="FLUSHALL's loop over the table is proved complete (ghost set of visited table indexes, collected list with a position witness); a bounded harness (all sets of up to 3 of 5 database indexes, FLUSHDB/FLUSHALL, run natively) looks for a witness when a restructured loop unbinds the invariants - labelled bounded, not counted as proof. Not under contract: the 'handlers only write their own connection's state' frame; isolation between databases rests on C08's per-store obligations. newDataStore is a trusted contract.",
  design="DESIGN.md §6 C14"),
})
CLAIMED.update({
 "C06": dict(
  text="Deductive proof of the keyspace discipline on the real store methods: (1) one type per key — every function that writes a key object's type tag or payload re-establishes the tag/payload invariant on that object at every exit (string tag <=> non-nil []byte payload, list tag <=> non-nil *storeList, hash/set tag <=> non-nil *redisDict, payload present => a type tag), the typed accessors return nil exactly for other types, and every object installed in a keyspace table is a key object carrying the store's newest version; (2) failed commands are inert — for every store method with a failure outcome (WRONGTYPE, wrong format, overflow, error pointer) that outcome implies that no key object, list node, table or deadline was written (ghost write bit); (3) clone (COPY) yields a well-formed object with the same type and deadline. COPY of lists/hashes/sets was broken and repaired.",
  note="RENAME/RENAMENX/MOVE/COPY place the key object under the destination name and remove it from the source exactly when the two differ (keyspace view clauses; RENAME k k keeps the key). Empty sets/hashes/lists delete their key (SREM, SMOVE, HDEL, the STORE forms, list pops). Not proved: the handlers' replies for DEL/EXISTS/TYPE/KEYS/RANDOMKEY/SORT, glob matching, deep equality of COPY's result. RESTORE with forged flags violates the invariant and is reported as UNDECIDED (never proved). getStoreKey's 'stored values are key objects' is a trusted contract backed by the newest-version obligation on every keyspace store; the dictionary itself is verified (C04).",
  design="DESIGN.md §6 C06"),
 "C07": dict(
  text="Deductive proof of the expiry discipline: the raw keyspace lookup (which ignores deadlines) may only be called from the four expiry-aware functions (call-site whitelist obligation on every call of getStoreKey in the package's contracted code); the expiry-aware lookups return a key only if its deadline has not passed at the time of the lookup (time is an input: every time.Now() is a fresh, monotone value); EXPIRE's NX/XX/GT/LT decision table, the reply (1 iff applied) and the stored deadline are proved against the table in the statement, and a missing key is left untouched. RENAME/COPY of expired keys and RANDOMKEY were expiry-blind and repaired.",
  note="Also under contract: APPEND keeps the deadline, GETEX without an option leaves it alone, DBSIZE counts unexpired keys under the lock (all three repaired). Not under contract: deadline arithmetic of SET EX/PX/EXAT/PXAT and EXPIRE* handlers (Duration overflow), TTL/PTTL/EXPIRETIME replies, keep-vs-clear TTL of the remaining mutators, bucket iteration paths (KEYS/SCAN filter expiry in their callbacks, not checked here). Wall-clock agreement is outside this family.",
  design="DESIGN.md §6 C07"),
})
CLAIMED.update({
 "C03": dict(
  text="Deductive proof, for lists of every length, that the seven link/unlink primitives of the real doubly linked list (lpush/rpush/lpop/rpop/remove/linsertBefore/linsertAfter ...Unlocked) preserve the representation invariant (count, head, tail, prev/next links, one position per node, one owner per node — stated over a ghost sequence view with quantifiers) and implement exactly insert-at / delete-at on that sequence, i.e. element order is preserved; the list getters hand out well-formed lists, and LPUSH/RPUSH(X)/LPOP/RPOP/LINSERT (pivot search loop invariant) keep the invariant through their loops and call the primitives only within their preconditions. A bounded-refutation harness (all sequences of up to 3 operations on lists of up to 3 elements, incl. LMOVE with source = destination, LREM, LSET, LTRIM, negative indexes, run natively on the real code against a slice model) is used only to find a concrete failing input when an obligation becomes undecided; it is labelled bounded and never counted as proved. LMOVE k k on a one-element list lost the element and was repaired.",
  note="Index normalisation and replies of LRANGE/LINDEX/LTRIM/LSET/LPOS/LREM/LMOVE/LMPOP are not proved (only covered by the bounded harness); the ghost instrumentation is bound to statement texts of the primitives, so a restructured helper makes its contract unbound (reported UNDECIDED, then the harness looks for a witness). 'Stored lists are well formed and smaller than 2^56 nodes' is a stated (free) assumption at the accessor.",
  design="DESIGN.md §6 C03"),
})
CLAIMED.update({
 "C04": dict(
  text="Deductive proof of the real dictionary under the hash (and set) commands against an abstract view: every redisDict carries ghost fields vdom/vval (present keys, their values) tied to the bucket array by a representation invariant (an occupied bucket holds a key whose hash selects that bucket, is in vdom with its value; every key in vdom sits in the bucket its hash selects). get, store, remove, rehash (all 405 admissible pairs of old/new table size, bit-vector reasoning about the reverse-binary bucket index), clone, the iterator step, newRedisDict and pickRandomItems are verified against it for all tables and keys: get returns exactly vdom/vval, store/remove update exactly one binding and change count by exactly the change of vdom, growing and shrinking keep every binding (shrink only when no two occupied buckets would merge), the iterator yields present keys with their values and skips only empty buckets. On top: HINCRBY overflow iff the mathematical sum leaves int64 for every sign combination, HSETNX never changes an existing field (loop invariant over the view) and its NX flag reaches the worker, HDEL removes the named fields and deletes the key when the table becomes empty, HRANDFIELD's negative-count path returns exactly |count| existing fields with their values.",
  note="Known finding (not repaired): table growth is unbounded on partial SipHash collisions (fixed zero key) - two colliding keys make store ask for 2^32 buckets and panic; see known_findings.txt. The step 'after growing, the new key's bucket is empty' is still undecided (bit-level, symbolic new size). count == |vdom| is an inductive consequence of the proved per-operation deltas, assumed where used. calcSipHash is an uninterpreted function of the key. Reply formatting of the hash handlers, HINCRBYFLOAT, HSCAN (see C17) and pickUniqueRandomItems' distinctness are not under contract.",
  design="DESIGN.md section 6 C04"),
})
CLAIMED.update({
 "C05": dict(
  text="Deductive proof of the set algebra on the real workers over the verified dictionary view (vdom = members): SDIFF's worker returns exactly first \\ (union of the other operands), SUNION's exactly first U (union of the others), SINTER's exactly first /\\ (intersection of the others) - each stated with a ghost accumulated operand set and proved with loop invariants over the iterator position (which members lie in the part of the table already passed), incl. SINTER's collect-then-remove list (ghost witness of each collected name's list position); a missing first key gives the empty set, a missing later key is the empty set (SINTER: empty result); every result is a fresh scratch table and no stored table changes (operands never modified: frame over all non-scratch dictionaries); the STORE forms install exactly that result under the destination and delete the destination when the result is empty; SREM removes the named members and deletes a set it empties; SMOVE moves the member, keeps it when source = destination, replies 1 iff it was in the source, deletes an emptied source; SINTERCARD's worker leaves operands untouched. Only workers named in the contract can be passed as the operation (checked at each call site).",
  note="Three defects found and repaired (empty STORE result, SREM/SMOVE leaving empty sets, SMOVE onto the same set losing the member). Not under contract: reply ordering/formatting, SRANDMEMBER/SPOP distribution, SSCAN (see C17), SINTERCARD's LIMIT counting, SADD/SISMEMBER/SMISMEMBER replies beyond the dictionary contracts. Shared items between a clone and its origin are harmless for sets (all values are struct{}{}), stated as an assumption.",
  design="DESIGN.md section 6 C05"),
})
CLAIMED.update({
 "C02": dict(
  text="Deductive proof of the decidable core of the string commands on the real code: INCR/DECR/INCRBY/DECRBY (addInt) report overflow exactly when the mathematical sum leaves int64 for every sign combination, return the sum otherwise, and leave the key untouched on overflow / wrong type / non-integer; SET's option table (setKey): NX on an existing key and XX on a missing key change nothing, GET on a non-string is a WRONGTYPE error without change, a performed SET binds the key to a fresh string object whose deadline is the old one exactly when KEEPTTL is given for an existing key and the requested one otherwise; MSET/MSETNX (setKeys): with NX, if any key exists the reply is 0 and nothing is changed, otherwise the reply is 1 and every key is present afterwards (loop invariants over the keyspace view); GETRANGE/SUBSTR return exactly the byte range redis defines (executable spec functions for negative and out-of-range offsets, mathematical integers with overflow obligations); SETRANGE rejects negative offsets and results above 512MB before anything is sized by the offset and is panic-free inside that range.",
  note="Repaired: DECRBY of the minimum integer, GETRANGE with a negative end before the value, SETRANGE offset crashes. Not under contract: INCRBYFLOAT (floating point is outside the verifier's theories), LCS, APPEND/STRLEN/GETDEL/GETEX replies, expiry arithmetic of EX/PX/EXAT/PXAT (see C07), the grammar-driven argument parser (type assertions on its output are the UNDECIDED safety obligations listed under C13). strconv.ParseInt is an uninterpreted parse function.",
  design="DESIGN.md section 6 C02"),
})
CLAIMED.update({
 "C11": dict(
  text="Deductive proof of the sequential core of blocking pops on the real wait table and worker: a new waiter is linked at the tail of the key's queue and of its own key list (joinWaitList: first come, first in the queue; queue and signal shape invariants re-established); leaving a queue joins the neighbours, so the others keep their order and the head's successor becomes the head (unlink, all alias cases of the two intrusive lists); a woken or cancelled client leaves every queue it is in (unlinkWakeSignal, loop invariant over the global shape invariants); a push of n elements wakes at most n waiters, each taken from the head of the key's queue at that moment and removed from all queues before its token is sent (unblock: assertions before the unlink and before the channel send, ghost wake counter); enterWait registers the client as the last of the key's queue; and the blocking worker tries, registers, tries again and only then waits, and is queued whenever it waits (ghost registration bit cleared by the wake signal). The last obligation failed on the pinned tree (a woken client that lost the race waited again unqueued: lost wake-up, demonstrated on the real code) and was repaired.",
  note="Not decided (outside contract-based verification, no thread support): interleavings between pusher, blocked client and other consumers, fairness across keys, exactly-once delivery under concurrency (it rests on the store lock discipline of C08 plus these sequential contracts), channel semantics beyond 'one send per wake'. The whole-queue order is proved link-wise (neighbour links), not as a ghost sequence as for C03.",
  design="DESIGN.md section 6 C11"),
 "C12": dict(
  text="Deductive proof of the sequential parts of ending a blocked command on the real code: clientState.unblock (atomics modelled as sequentially consistent accesses) reports 'was blocked' exactly when the capture word was CS_CAPTURED, posts to the mailbox at most once and only to a captured client, marks the unblock pending and restores the capture word; CLIENT UNBLOCK replies 0 for an unknown id and 1 exactly when that client was captured (it replied 1 for every existing client: repaired); the blocking worker never registers or waits when it runs under MULTI/EXEC (one attempt, reply as is) and returns at once when the first attempt produced a reply.",
  note="Not decided: timing ('no earlier than t, promptly after t'), the three-way select between mailbox, timer and wake signal, the spin/backoff capture protocol under real interleavings, detection of a closed connection while blocked (the socket is only read between commands) - these are scheduling/liveness properties outside this technique. Negative timeouts are not rejected by the handlers (they time out immediately) - noted, not covered by a contract.",
  design="DESIGN.md section 6 C12"),
})
CLAIMED.update({
 "C20": dict(
  text="Deductive proof of the sequential effects of termination on the real code: RequestTermination closes the listener exactly once (iff one is open), cancels the lane exactly once, asks every connection this emulator accepted to close (ghost counter = number of tracked connections, each marked closing, loop invariant) and forgets them, so a second call finds nothing to do; trackConnection closes a connection that arrives after termination was requested at once and otherwise records it as the last tracked connection, dropping only connections that were already told to close. On the pinned tree connections were never closed on termination (an old connection could still GET and SET after Close - demonstrated on the real server) ; repaired.",
  note="Not decided (outside this technique): 'returns within bounded time' (liveness of wg.Wait, goroutines blocked in Accept/select), release of the TCP port by the kernel and immediate re-bind, goroutine exit of connection handlers and of commands blocked with timeout 0, os.Exit on bind failure, isolation of several emulators in one process (the client registry, INFO counters and client ids are package globals - CLIENT LIST/KILL/UNBLOCK reach across instances; noted, not repaired). wg.Add/Done balance is not checked.",
  design="DESIGN.md section 6 C20"),
})
NOT_BUILT = {}
ALL = ["C%02d" % i for i in range(1, 21)]

def main():
    hooks_commits = subprocess.run(["git","-C","/repo","log","--format=%H %s"],capture_output=True,text=True).stdout.strip().split("\n")
    hook = [l.split()[0] for l in hooks_commits if "verif hooks" in l]
    m = {
     "version": 1,
     "setup_cmd": "cd /verif/govc && GOFLAGS=-mod=mod GOPROXY=off GOSUMDB=off GOTOOLCHAIN=local go build -o /verif/bin/govc .",
     "hooks": {
       "guard": "verif",
       "enable": "go build/test -tags verif (contracts are //@ comments in /repo/zz_contracts_verif.go, executable spec functions in /repo/zz_spec_verif.go; both files carry //go:build verif)",
       "baseline_off_cmd": "cd /repo && GOFLAGS=-mod=mod GOPROXY=off GOSUMDB=off GOTOOLCHAIN=local go test -json -vet=off -count=1 -timeout 25m -run \"$(cat /verif/scripts/baseline_tests.regex)\" ./...",
       "source_commits": hook,
       "add_only": True,
     },
     "engines": [{
       "name": "govc",
       "path": "/verif/govc",
       "serves_properties": sorted(CLAIMED),
       "kind_free_text": "contract-based deductive verifier for Go written for this task: forward symbolic execution over the typed AST of the real functions (go/packages), contracts as //@ comments, obligations discharged by z3 5.1 / z3 4.8.12 / cvc5 1.0 portfolio; counterexamples replayed on the real code via go test -overlay",
     }],
     "checks": [],
     "not_applicable": [],
     "notes": "Every check rebuilds its obligations from /repo's working tree. An obligation counts as proved only if it is in obligations.lock (discharged on the pinned tree). known_findings.txt lists genuine defects (open or fixed).",
    }
    for p in ALL:
        if p in CLAIMED:
            c = CLAIMED[p]
            m["checks"].append({
              "property_id": p,
              "quick_cmd": "/verif/check.sh %s quick" % p,
              "thorough_cmd": "/verif/check.sh %s thorough" % p,
              "evidence_file": "/verif/evidence/%s.json" % p,
              "replay_cmd_template": "/verif/bin/govc replay {path}",
              "engine": "govc",
              "level_claimed": {"category": "proof", "text": c["text"], "design_ref": c["design"]},
              "level_note": c["note"],
              "technique": "contract-based deductive verification: weakest-precondition style VCs from the real Go functions, discharged by SMT (z3/cvc5)",
            })
        else:
            m["not_applicable"].append({"property_id": p, "reason": NOT_BUILT.get(p, "contracts for this property are not built yet in this session (see DESIGN.md §6 for the plan); no other technique is substituted")})
    json.dump(m, open("/verif/MANIFEST.json","w"), indent=1)
    print("wrote MANIFEST.json:", len(m["checks"]), "checks,", len(m["not_applicable"]), "not applicable")

main()
