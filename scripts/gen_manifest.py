#!/usr/bin/env python3
"""Writes /verif/MANIFEST.json from the table below (single source of truth)."""
import json, subprocess

CLAIMED = {
 "C18": dict(
  text="Contract-based deductive proof of the real bit-field primitives: extractBitfield and setBitfield against an executable bit-array specification for every (offset mod 8, width) and every byte offset/content (512-case complete split, bit-vector semantics), signExtend / isSignedSumOverflow / isUnsignedOverflow / saturateValue against range specifications for every width; all implicit Go safety conditions (index bounds, shifts) of those functions.",
  note="Trusted: govc (our VC generator), the SMT solvers, GOARCH=amd64. The command layer (fnBitfield/bitfieldWrite argument plumbing, BITCOUNT/BITPOS/BITOP loops) is not yet under contract; evidence lists what is.",
  design="DESIGN.md §6 C18"),
}
NOT_BUILT = {}
ALL = ["C%02d" % i for i in range(1, 21)]

def main():
    hooks_commits = subprocess.run(["git","-C","/repo","log","--format=%H %s"],capture_output=True,text=True).stdout.strip().split("\n")
    hook = [l.split()[0] for l in hooks_commits if "verif hooks" in l]
    m = {
     "version": 1,
     "setup_cmd": "cd /verif/govc && GOFLAGS=-mod=mod GOPROXY=off GOSUMDB=off GOTOOLCHAIN=local go build -o /verif/bin/govc .",
     "hooks": {
       "guard": "verif",
       "enable": "go build/test -tags verif (contracts are //@ comments in /repo/zz_contracts_verif.go, executable spec functions in /repo/zz_spec_verif.go; both files carry //go:build verif)",
       "baseline_off_cmd": "cd /repo && GOFLAGS=-mod=mod GOPROXY=off GOSUMDB=off GOTOOLCHAIN=local go test -json -vet=off -count=1 -timeout 25m -run \"$(cat /verif/scripts/baseline_tests.regex)\" ./...",
       "source_commits": hook,
       "add_only": True,
     },
     "engines": [{
       "name": "govc",
       "path": "/verif/govc",
       "serves_properties": sorted(CLAIMED),
       "kind_free_text": "contract-based deductive verifier for Go written for this task: forward symbolic execution over the typed AST of the real functions (go/packages), contracts as //@ comments, obligations discharged by z3 5.1 / z3 4.8.12 / cvc5 1.0 portfolio; counterexamples replayed on the real code via go test -overlay",
     }],
     "checks": [],
     "not_applicable": [],
     "notes": "Every check rebuilds its obligations from /repo's working tree. An obligation counts as proved only if it is in obligations.lock (discharged on the pinned tree). known_findings.txt lists genuine defects (open or fixed).",
    }
    for p in ALL:
        if p in CLAIMED:
            c = CLAIMED[p]
            m["checks"].append({
              "property_id": p,
              "quick_cmd": "/verif/check.sh %s quick" % p,
              "thorough_cmd": "/verif/check.sh %s thorough" % p,
              "evidence_file": "/verif/evidence/%s.json" % p,
              "replay_cmd_template": "/verif/bin/govc replay {path}",
              "engine": "govc",
              "level_claimed": {"category": "proof", "text": c["text"], "design_ref": c["design"]},
              "level_note": c["note"],
              "technique": "contract-based deductive verification: weakest-precondition style VCs from the real Go functions, discharged by SMT (z3/cvc5)",
            })
        else:
            m["not_applicable"].append({"property_id": p, "reason": NOT_BUILT.get(p, "contracts for this property are not built yet in this session (see DESIGN.md §6 for the plan); no other technique is substituted")})
    json.dump(m, open("/verif/MANIFEST.json","w"), indent=1)
    print("wrote MANIFEST.json:", len(m["checks"]), "checks,", len(m["not_applicable"]), "not applicable")

main()
