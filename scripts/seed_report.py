#!/usr/bin/env python3
# Reads seeded/*/result.txt (written by scripts/seeds_all.sh), records the outcome in each
# meta.json ("evaluation") and prints the markdown table used in DESIGN.md.
import json, glob, os, re
rows=[]
for d in sorted(glob.glob('/verif/seeded/*/')):
    sid=os.path.basename(d.rstrip('/'))
    mp=d+'meta.json'
    meta=json.load(open(mp)) if os.path.exists(mp) else {}
    res=open(d+'result.txt').read() if os.path.exists(d+'result.txt') else ''
    viol=re.findall(r'^VIOLATION property=\S+ replay=\S+ (?:obligation=(\S+)|(bounded refutation[^\n]*))', res, re.M)
    obls=[]
    for o,b in viol:
        obls.append(o if o else 'bounded refutation harness: '+b[len('bounded refutation on the real code: '):][:90])
    facts=re.search(r'SEED facts: (.*)', res)
    applies='does not apply' not in res
    prop=sid.split('-')[0]
    ev={'command':'scripts/seed_eval.sh /verif/seeded/%s %s (scratch copy of /repo with patch.diff applied; demo and baseline re-run there; then govc check %s)'%(sid,prop,prop),
        'seed_facts': facts.group(1) if facts else ('patch no longer applies to the current tree' if not applies else ''),
        'detected': bool(obls), 'failed_obligations': obls[:6]}
    note=meta.get('evaluation_note')
    meta['evaluation']=ev
    json.dump(meta, open(mp,'w'), indent=1)
    summ=(meta.get('summary') or '').replace('\n',' ')
    summ=re.sub(r'\s+',' ',summ)[:170]
    det=('yes: '+'; '.join(o.replace('|','/') for o in obls[:2])) if obls else ('**no**' if applies and facts else 'n/a')
    if note: det+=' ('+note+')'
    rows.append('| %s | %s | %s |'%(sid, summ, det))
print('| seed | change (author: outside agent, saw only the property text) | reported by the check |')
print('|---|---|---|')
print('\n'.join(rows))
