#!/usr/bin/env python3
"""Generates /repo/zz_contracts_storegen_verif.go: one contract block per
dataStoreCommand method (lock discipline C08/C16, dirty marking C19, version
bump C10). Hand-written primitives live in zz_contracts_store_verif.go."""
import re
import os
REPO=os.environ.get('REPO','/repo')
src=open(REPO+'/dataStoreCommands.go').read()
names=re.findall(r'^func \(dsc \*dataStoreCommand\) (\w+)\(', src, re.M)
SKIP={'anyWrongTypeSetUnlocked','findListItem','lpushUnlocked','rpushUnlocked','lpopUnlocked','rpopUnlocked','removeUnlocked','linsertBeforeUnlocked','linsertAfterUnlocked','flush','dictScanUnlocked','setModified','lock','unlock','unlockAndUnblock','acquireExclusive','releaseExclusive','getKeyObjectUnlocked','setDirty'}
HELPERS={'setModified','diffWorker','intersectWorker','intersectWithLimitWorker','unionWorker','findListItem'}
MUTHELPERS={'setModified','lpushUnlocked','rpushUnlocked','lpopUnlocked','rpopUnlocked','removeUnlocked','linsertBeforeUnlocked','linsertAfterUnlocked','ensureListUnlocked','newListUnlocked','setAddWorkerUnlocked'}
WORKERS={'diffWorker','intersectWorker','intersectWithLimitWorker','unionWorker'}
NOVER={'linsertBeforeUnlocked','linsertAfterUnlocked'}
EXTRA={
 'linsert': ['//@ loop "for pivotItem = list.head" invariant [C03] pivot: pivotItem != nil ==> (pivotItem.owner == list && 0 <= pivotItem.idx && pivotItem.idx < list.count && list.seq[pivotItem.idx] == pivotItem)',
             '//@ requires free bounded: true',
             # LINSERT: the pivot is the first element equal to the argument; -1 without a pivot, 0 without a list, the new length otherwise
             '//@ ghostafter "list, err := dsc.getListUnlocked(keyName)" : gN0 = list.count',
             '//@ loop "for pivotItem = list.head" invariant [C03] first.match: all(i, 0, ite(pivotItem != nil, pivotItem.idx, list.count), string(list.seq[i].element) != pivot)',
             '//@ assertbefore "if before {" [C03] pivot.matches: string(pivotItem.element) == pivot',
             '//@ assertbefore "output.data = respInt(list.count)" [C03] grown: list.count == gN0 + 1',
             '//@ assertbefore "output.data = respInt(-1)" [C03] no.pivot: all(i, 0, list.count, string(list.seq[i].element) != pivot) && !mutated && !bumped'],
 'lpush': ['//@ ensures [C11] wakes: mutated ==> gWakeRequested == len(values) && gWakeKey == keyName', '//@ loopinv [C03] bounded: list != nil ==> list.count < (1<<40) + ri1', '//@ requires free sizes: len(values) < (1<<40)'],
 'rpush': ['//@ ensures [C11] wakes: mutated ==> gWakeRequested == len(values) && gWakeKey == keyName', '//@ loopinv [C03] bounded: list != nil ==> list.count < (1<<40) + ri1', '//@ requires free sizes: len(values) < (1<<40)'],
 'lpushx': ['//@ ensures [C11] wakes: mutated ==> gWakeRequested == len(values) && gWakeKey == keyName', '//@ loopinv [C03] bounded: list != nil ==> list.count < (1<<40) + ri1', '//@ requires free sizes: len(values) < (1<<40)'],
 'rpushx': ['//@ ensures [C11] wakes: mutated ==> gWakeRequested == len(values) && gWakeKey == keyName', '//@ loopinv [C03] bounded: list != nil ==> list.count < (1<<40) + ri1', '//@ requires free sizes: len(values) < (1<<40)'],
 'getListUnlocked': ['// keyspace invariant (C06): a list found in the keyspace is not empty - every command that shrinks or creates a list proves noempty at its exit', '//@ ensures [C03,C06] err.is.wrongtype: err != nil ==> *err == wrongTypeError && list == nil', '//@ ensures free nonempty: list != nil ==> list.count > 0', '//@ ensures [C03] listwf: list != nil ==> listWF(list)', '//@ ensures [C03] listsize: list != nil ==> list.count < (1<<40)', '//@ use storeKey.getList.listwf', '//@ include listsframe'],
 'ensureListUnlocked': ['//@ include listsframe', '//@ use dataStoreCommand.getListUnlocked.lists.kept dataStoreCommand.getListUnlocked.items.kept', '//@ ensures [C03] listwf: list != nil ==> listWF(list)', '//@ ensures [C03] listsize: list != nil ==> list.count < (1<<40)', '//@ ensures [C03] nonnil: err == nil ==> list != nil', '//@ use storeKey.getList.listwf dataStoreCommand.getListUnlocked.listwf'],
 'newListUnlocked': ['//@ include listsframe', '//@ use dataStoreCommand.getListUnlocked.lists.kept dataStoreCommand.getListUnlocked.items.kept', '//@ ensures [C03] listwf: list != nil && listWF(list)', '//@ use storeKey.getList.listwf dataStoreCommand.getListUnlocked.listwf'],
 'expire': ['//@ ensures internal [C07] table: exists ==> ((output.data == respInt(1)) == ((nx && !(old(sk.expiresAt) < maxTime)) || (!nx && xx && old(sk.expiresAt) < maxTime) || (!nx && !xx && gt && expiration > old(sk.expiresAt)) || (!nx && !xx && !gt && lt && expiration < old(sk.expiresAt)) || (!nx && !xx && !gt && !lt)))',
            '//@ ensures internal [C07] applied: exists && output.data == respInt(1) ==> sk.expiresAt == expiration',
            '//@ ensures internal [C07] kept: exists && output.data != respInt(1) ==> sk.expiresAt == old(sk.expiresAt)',
            '//@ ensures internal [C07] missing: !exists ==> output.data == respInt(0) && !mutated'],
 'bitfieldWrite': ['//@ requires !gApplied',
            '//@ requires [C13,C18] ops.wf: allabs(i, 0, len(ops), bfOpWF(ops[i]))',
            '//@ assertbefore "bits := op.width" dbg.wf: bfOpWF(op)',
            '//@ loop 1 invariant [C18] length.range: 0 <= length && length < (1<<32) + 64',
            '//@ loop 1 invariant [C18] length.covers: allsel(i, 0, ri1, ops[i].op == BF_GET || ops[i].endOffset <= length)',
            '//@ ghostbefore "results = append(results, respInt(newValue))" : gApplied = true',
            '//@ ghostbefore "results = append(results, respInt(n))" : gApplied = true',
            '//@ loop 2 invariant [C18] applied: gApplied ==> changed',
            '//@ loop 2 invariant [C18] sized: len(strBytes) >= length && length >= 1 && length < (1<<29) + 16',
            '//@ loop 2 invariant [C18] covers: allsel(i, 0, len(ops), ops[i].op == BF_GET || ops[i].endOffset/8 < length)',
            '//@ assertbefore "setBitfield(strBytes, op.bitOffset, op.width, newValue)" [C18] store.inrange.signed.set: op.signed && op.op == BF_SET && specBfDir(true, true, n, op.value, op.width) == 0 ==> newValue == specBfTarget(true, n, op.value)',
            '//@ assertbefore "setBitfield(strBytes, op.bitOffset, op.width, newValue)" [C18] store.wrap.signed.set: op.signed && op.op == BF_SET && specBfDir(true, true, n, op.value, op.width) != 0 && op.oflow == OFLOW_WRAP ==> newValue == specBfWrap(true, specBfTarget(true, n, op.value), op.width)',
            '//@ assertbefore "setBitfield(strBytes, op.bitOffset, op.width, newValue)" [C18] store.sat.signed.set: op.signed && op.op == BF_SET && specBfDir(true, true, n, op.value, op.width) != 0 && op.oflow == OFLOW_SAT ==> newValue == specBfLimit(true, specBfDir(true, true, n, op.value, op.width), op.width)',
            '//@ assertbefore "setBitfield(strBytes, op.bitOffset, op.width, newValue)" [C18] store.notfail.signed.set: op.signed && op.op == BF_SET ==> !(specBfDir(true, true, n, op.value, op.width) != 0 && op.oflow == OFLOW_FAIL)',
            '//@ assertbefore "results = append(results, nil)" [C18] fail.iff.signed.set: op.signed && op.op == BF_SET ==> specBfDir(true, true, n, op.value, op.width) != 0 && op.oflow == OFLOW_FAIL',
            '//@ assertbefore "setBitfield(strBytes, op.bitOffset, op.width, newValue)" [C18] store.inrange.signed.incrby: op.signed && op.op != BF_SET && specBfDir(true, false, n, op.value, op.width) == 0 ==> newValue == specBfTarget(false, n, op.value)',
            '//@ assertbefore "setBitfield(strBytes, op.bitOffset, op.width, newValue)" [C18] store.wrap.signed.incrby: op.signed && op.op != BF_SET && specBfDir(true, false, n, op.value, op.width) != 0 && op.oflow == OFLOW_WRAP ==> newValue == specBfWrap(true, specBfTarget(false, n, op.value), op.width)',
            '//@ assertbefore "setBitfield(strBytes, op.bitOffset, op.width, newValue)" [C18] store.sat.signed.incrby: op.signed && op.op != BF_SET && specBfDir(true, false, n, op.value, op.width) != 0 && op.oflow == OFLOW_SAT ==> newValue == specBfLimit(true, specBfDir(true, false, n, op.value, op.width), op.width)',
            '//@ assertbefore "setBitfield(strBytes, op.bitOffset, op.width, newValue)" [C18] store.notfail.signed.incrby: op.signed && op.op != BF_SET ==> !(specBfDir(true, false, n, op.value, op.width) != 0 && op.oflow == OFLOW_FAIL)',
            '//@ assertbefore "results = append(results, nil)" [C18] fail.iff.signed.incrby: op.signed && op.op != BF_SET ==> specBfDir(true, false, n, op.value, op.width) != 0 && op.oflow == OFLOW_FAIL',
            '//@ assertbefore "setBitfield(strBytes, op.bitOffset, op.width, newValue)" [C18] store.inrange.unsigned.set: !op.signed && op.op == BF_SET && specBfDir(false, true, n, op.value, op.width) == 0 ==> newValue == specBfTarget(true, n, op.value)',
            '//@ assertbefore "setBitfield(strBytes, op.bitOffset, op.width, newValue)" [C18] store.wrap.unsigned.set: !op.signed && op.op == BF_SET && specBfDir(false, true, n, op.value, op.width) != 0 && op.oflow == OFLOW_WRAP ==> newValue == specBfWrap(false, specBfTarget(true, n, op.value), op.width)',
            '//@ assertbefore "setBitfield(strBytes, op.bitOffset, op.width, newValue)" [C18] store.sat.unsigned.set: !op.signed && op.op == BF_SET && specBfDir(false, true, n, op.value, op.width) != 0 && op.oflow == OFLOW_SAT && op.value >= 0 ==> newValue == specBfLimit(false, specBfDir(false, true, n, op.value, op.width), op.width)',
            '//@ assertbefore "setBitfield(strBytes, op.bitOffset, op.width, newValue)" [C18] store.notfail.unsigned.set: !op.signed && op.op == BF_SET ==> !(specBfDir(false, true, n, op.value, op.width) != 0 && op.oflow == OFLOW_FAIL)',
            '//@ assertbefore "results = append(results, nil)" [C18] fail.iff.unsigned.set: !op.signed && op.op == BF_SET ==> specBfDir(false, true, n, op.value, op.width) != 0 && op.oflow == OFLOW_FAIL',
            '//@ assertbefore "setBitfield(strBytes, op.bitOffset, op.width, newValue)" [C18] store.inrange.unsigned.incrby: !op.signed && op.op != BF_SET && specBfDir(false, false, n, op.value, op.width) == 0 ==> newValue == specBfTarget(false, n, op.value)',
            '//@ assertbefore "setBitfield(strBytes, op.bitOffset, op.width, newValue)" [C18] store.wrap.unsigned.incrby: !op.signed && op.op != BF_SET && specBfDir(false, false, n, op.value, op.width) != 0 && op.oflow == OFLOW_WRAP ==> newValue == specBfWrap(false, specBfTarget(false, n, op.value), op.width)',
            '//@ assertbefore "setBitfield(strBytes, op.bitOffset, op.width, newValue)" [C18] store.sat.unsigned.incrby: !op.signed && op.op != BF_SET && specBfDir(false, false, n, op.value, op.width) != 0 && op.oflow == OFLOW_SAT ==> newValue == specBfLimit(false, specBfDir(false, false, n, op.value, op.width), op.width)',
            '//@ assertbefore "setBitfield(strBytes, op.bitOffset, op.width, newValue)" [C18] store.notfail.unsigned.incrby: !op.signed && op.op != BF_SET ==> !(specBfDir(false, false, n, op.value, op.width) != 0 && op.oflow == OFLOW_FAIL)',
            '//@ assertbefore "results = append(results, nil)" [C18] fail.iff.unsigned.incrby: !op.signed && op.op != BF_SET ==> specBfDir(false, false, n, op.value, op.width) != 0 && op.oflow == OFLOW_FAIL',
            '//@ assertbefore "results = append(results, n)" [C18] get.value: (op.signed && n == specSignExtend(int64(specField(strBytes, op.bitOffset, op.width)), op.width)) || (!op.signed && uint64(n) == specField(strBytes, op.bitOffset, op.width))',
            '//@ ensures internal [C18] write.stored: gApplied ==> dsc.ds.data.vdom[keyName] && istype(dsc.ds.data.vval[keyName], *storeKey) && istype(unbox(dsc.ds.data.vval[keyName], *storeKey).payload, []byte) && len(unbox(unbox(dsc.ds.data.vval[keyName], *storeKey).payload, []byte)) >= length && flagHasOne(unbox(dsc.ds.data.vval[keyName], *storeKey).flags, FLAG_KEY_TYPE_STRING)',
            '//@ ensures internal [C18] write.expiry: gApplied && exists ==> unbox(dsc.ds.data.vval[keyName], *storeKey).expiresAt == old(sk.expiresAt)'],
 'lmove': ['//@ mode int', '//@ use *', '//@ ghostbefore "var item *listItem" : gSrcHead = srcList.head',
            '//@ ghostbefore "var item *listItem" : gSrcTail = srcList.tail',
            '//@ assertbefore "output.data = respBulkString(srcList.head.element)" [C03] rotate.single: srcKeyName == destKeyName && srcList.count == 1',
            # the rotated element is still in the list: the waiters of the list are told, as after any push (a BLMOVE k k woken by a push keeps the element there for the next waiter)
            '//@ assertbefore "output.data = respBulkString(srcList.head.element)" [C03,C11] rotated.wakes: uk.elements == 1 && uk.keyName == destKeyName',
            '//@ assertbefore "element := item.element" [C03] source.end: item == ite(srcLeft, gSrcHead, gSrcTail)',
            '//@ assertbefore "dsc.lpushUnlocked(destKeyName, destList, element)" [C03] dest.left: destLeft',
            '//@ assertbefore "dsc.rpushUnlocked(destKeyName, destList, element)" [C03] dest.right: !destLeft',
            '//@ assertbefore "output.data = respBulkString(element)" [C03,C11] moved.one: uk.elements == 1 && uk.keyName == destKeyName',
            '//@ ghostbefore "var item *listItem" : gSrcCount = srcList.count',
            '//@ ghostbefore "var item *listItem" : gDstCount = destList.count',
            '//@ requires !gMoved',
            '//@ ghostbefore "output.data = respBulkString(element)" : gMoved = true',
            '//@ ensures internal [C03] moved.counts: gMoved && srcList != destList ==> srcList.count == gSrcCount - 1 && destList.count == gDstCount + 1',
            '//@ ensures internal [C03] rotated.count: gMoved && srcList == destList ==> srcList.count == gSrcCount',
            '//@ ensures internal [C03] placed: gMoved ==> listWF(destList) && (destLeft ==> destList.seq[0].element == element) && (!destLeft ==> destList.seq[destList.count-1].element == element)',
            '//@ ensures internal [C03] reply: gMoved ==> output.data == respBulkString(element)',
            '//@ assertbefore "output.data = respBulkString(element)" [C03] taken: item == ite(srcLeft, gSrcHead, gSrcTail) && item.owner == nil && element == item.element',
            '//@ ensures [C11] wake.one: gMoved ==> gWakeRequested == 1 && gWakeKey == destKeyName'],
 'scan': ['//@ requires free tablesize: dictSized(dsc.ds.data)', '//@ touches C17', '//@ requires [C17,C13] count.positive: count >= 1', '//@ requires !scanStarted'],
 'lpos': ['//@ ghostbefore "pos := 0" : gMax0 = maxLength',
            '//@ ghostbefore "pos := list.count - 1" : gMax0 = maxLength',
            '//@ ghostbefore "pos := 0" : gRank0 = rank',
            '//@ ghostbefore "pos := list.count - 1" : gRank0 = rank',
            # MAXLEN bounds the number of elements compared, whatever RANK and COUNT are: every element looked at uses one unit
            '//@ loop "for item := list.head" invariant [C03] window.forward: pos >= 0 && pos + maxLength == gMax0',
            '//@ loop "for item := list.tail" invariant [C03] window.backward: pos <= list.count - 1 && (list.count - 1 - pos) + maxLength == gMax0',
            # reported positions and skipped matches account for the rank: a position is only reported once the rank has been used up
            '//@ loop "for item := list.head" invariant [C03] rank.forward: rank >= 0 && rank <= gRank0 && (len(matches) > 0 ==> rank == 0)',
            '//@ loop "for item := list.tail" invariant [C03] rank.backward: rank >= 0 && rank <= gRank0 && (len(matches) > 0 ==> rank == 0)',
            '//@ requires [C13] rank.norm: rank >= 0 && count >= 0 && maxLength >= 0'],
 'addFloat': ['//@ ensures [C02] overflow.inert: valid == VALUE_OVERFLOW ==> !mutated'],
 'getIds': ['//@ modifies storeKey.lastAccess ghost.held ghost.lookupAbsent ghost.now alloc'],
 'restore': ['//@ ensures internal [C06,C13] restored.string: output.data == rstrOK ==> mutated && flagHasOne(newSk.flags, FLAG_KEY_TYPE_STRING) && istype(newSk.payload, []byte) && len(unbox(newSk.payload, []byte)) == len(serializedData) - 14',
            '//@ ensures [C06] refused.inert: output.data != rstrOK ==> !mutated'],
 'hashTableScan': ['// every HSCAN call on a hash is one step of the shared walk, with the caller\'s cursor, pattern and budget', '//@ ensures internal [C17] stepped: objExists && m != nil ==> scanStarted && gScanPattern == pattern && gScanCursor0 == cursor && gScanCount == count', '//@ touches C17', '//@ requires [C17,C13] count.positive: count >= 1', '//@ requires !scanStarted'],
 'setScan': ['//@ ensures internal [C17] stepped: objExists && m != nil ==> scanStarted && gScanPattern == pattern && gScanCursor0 == cursor && gScanCount == count', '//@ touches C17', '//@ requires [C17,C13] count.positive: count >= 1', '//@ requires !scanStarted'],
 'deleteSetMembers': ['//@ loop "for _, memberName := range memberNames" invariant [C06] noempty.loop: m != nil && (removed > 0 ==> m.count > 0)', '//@ assertafter "for _, memberName := range memberNames" [C06] noempty: removed > 0 && m.count == 0 ==> !dsc.ds.data.vdom[keyName]'],
 'lrange': [
   # LRANGE returns exactly the window [S, min(E, n-1)] of the list: S and E are the Redis normalisation of the arguments
   '//@ loop 1 invariant [C03] seek: 0 <= offset && offset <= list.count && offset <= start && start == specRangeStart(old(start), list.count) && stop == specRangeStop(old(stop), list.count) && len(values) == 0',
   '//@ loop 1 invariant [C03] seek.item: (offset < list.count ==> item == list.seq[offset]) && (offset == list.count ==> item == nil)',
   '//@ loop 2 invariant [C03] take: offset <= list.count && stop == specRangeStop(old(stop), list.count) && (offset <= stop + 1 || len(values) == 0)',
   '//@ loop 2 invariant [C03] take.len: len(values) == offset - ite(specRangeStart(old(start), list.count) < list.count, specRangeStart(old(start), list.count), list.count)',
   '//@ loop 2 invariant [C03] take.item: (offset < list.count ==> item == list.seq[offset]) && (offset == list.count ==> item == nil)',
   '//@ assertbefore "values = append(values, string(item.element))" [C03] window.item: offset < list.count && item == list.seq[offset]',
   '//@ assertbefore "output = nativeValueToResp(values)" [C03] window.len: list != nil ==> len(values) == specRangeLen(old(start), old(stop), list.count)',
   '//@ assertbefore "output = nativeValueToResp(values)" [C03] missing: list == nil ==> len(values) == 0'],
 'ltrim': [
   # LTRIM keeps exactly the window [S, S+T) of the list as it was found, in order (S, T: the Redis normalisation of the arguments)
   '//@ ghostafter "list, err := dsc.getListUnlocked(keyName)" : gSeq0 = list.seq',
   '//@ ghostafter "list, err := dsc.getListUnlocked(keyName)" : gN0 = list.count',
   '//@ ghostbefore "for start > 0 {" : gTrimHead = start',
   '//@ loop 1 invariant [C03] head: 0 <= start && start <= list.count && start <= gTrimHead && list.count + gTrimHead - start == gN0 && stop <= gN0',
   '//@ loop 1 invariant [C03] head.start: gTrimHead == specTrimStart(old(start), gN0) || (gTrimHead == 0 && specTrimLen(old(start), old(stop), gN0) == 0)',
   '//@ loop 1 invariant [C03] head.window: stop - start + 1 >= 0 && ite(stop - start + 1 < list.count - start, stop - start + 1, list.count - start) == specTrimLen(old(start), old(stop), gN0)',
   '//@ loop 1 invariant [C03] head.rest: all(i, 0, list.count, list.seq[i] == gSeq0[i + gN0 - list.count])',
   '//@ loop 2 invariant [C03] tail: stop >= 0 && ite(stop < list.count, stop, list.count) == specTrimLen(old(start), old(stop), gN0)',
   '//@ loop 2 invariant [C03] tail.start: gTrimHead == specTrimStart(old(start), gN0) || (gTrimHead == 0 && specTrimLen(old(start), old(stop), gN0) == 0)',
   '//@ loop 2 invariant [C03] tail.rest: all(i, 0, list.count, list.seq[i] == gSeq0[i + gTrimHead])',
   '//@ assertbefore "output.data = rstrOK" [C03] kept.len: list != nil ==> list.count == specTrimLen(old(start), old(stop), gN0)',
   '//@ assertbefore "output.data = rstrOK" [C03] kept.items: list != nil ==> all(i, 0, list.count, list.seq[i] == gSeq0[i + specTrimStart(old(start), gN0)])'],
 'save': ['// a snapshot that could not be written leaves the database marked as changed, so the next pass (and the final save) tries again',
            '//@ ensures [C19] failed.stays.dirty: err != nil ==> dsc.ds.data.dirty == old(dsc.ds.data.dirty)',
            '//@ ensures [C19] clean.only.after.save: old(dsc.ds.data.dirty) && !dsc.ds.data.dirty ==> err == nil',
            '// the saver touches the snapshot files, the dirty flag and the lock - nothing else (the table of databases in particular stays as it is)', '//@ modifies ghost.held redisDict.dirty ghost.fsLivePath ghost.fsLiveOK ghost.fsOpenPath ghost.fsHdrs ghost.fsHdrCount ghost.fsKeys ghost.fsVals ghost.fsFlags ghost.fsBroken ghost.fsClosed ghost.fsReplaced'],
 'sort': [
   # SORT ... STORE: the destination is replaced; an empty result leaves no key (C06: no empty list)
   '//@ assertbefore "output.data = respInt(len(a))" [C06] store.noempty: len(a) == 0 ==> !dsc.ds.data.vdom[destKeyName]'],
 'llen': ['//@ ensures internal [C03] length: err == nil ==> output.data == respInt(ite(list != nil, list.count, 0))'],
 'lindex': [
   # LINDEX replies the element at the index counted from the head (>= 0) or from the tail (< 0), nil outside the list
   '//@ loop 1 invariant [C03] walk.fwd: 0 <= index && index <= old(index) && old(index) < list.count && item == list.seq[old(index) - index]',
   '//@ loop 2 invariant [C03] walk.bwd: 0 <= index && index <= -(old(index)+1) && -(old(index)+1) < list.count && item == list.seq[list.count + old(index) + index]',
   '//@ assertbefore "output.data = respBulkString(string(item.element))" [C03] picked: item == list.seq[ite(old(index) >= 0, old(index), list.count + old(index))]',
   '//@ ensures internal [C03] outside: err == nil && list != nil && (old(index) >= list.count || old(index) < -list.count) ==> output.data == nil',
   '//@ ensures internal [C03] inside: err == nil && list != nil && -list.count <= old(index) && old(index) < list.count ==> istype(output.data, respBulkString)'],
 'lset': [
   '//@ mode int', '//@ use *',
   '//@ assertbefore "item.element = []byte(element)" [C03] target: item == list.seq[ite(old(count) < 0, list.count + old(count), old(count))]',
   '//@ ensures internal [C03] range: err == nil && list != nil && list.count > 0 && (ite(old(count) < 0, list.count + old(count), old(count)) < 0 || ite(old(count) < 0, list.count + old(count), old(count)) >= list.count) ==> istype(output.data, respErrorString) && !mutated && !bumped',
   '//@ ensures internal [C03] done: err == nil && list != nil && list.count > 0 && 0 <= ite(old(count) < 0, list.count + old(count), old(count)) && ite(old(count) < 0, list.count + old(count), old(count)) < list.count ==> output.data == rstrOK'],
 'lpop': [
   '//@ requires [C13,C03] count.nonneg: count >= 0',
   '//@ loopinv [C03] popped.budget: len(values) + count == ite(old(count) > gN0, gN0, old(count))',
   # LPOP replies the first min(count, n) elements in list order and leaves the rest in order
   '//@ ghostafter "list, err := dsc.getListUnlocked(keyName)" : gSeq0 = list.seq',
   '//@ ghostafter "list, err := dsc.getListUnlocked(keyName)" : gN0 = list.count',
   '//@ loopinv [C03] popped: len(values) + list.count == gN0 && count >= 0 && count <= list.count',
   '//@ loopinv [C03] popped.values: all(k, 0, len(values), values[k] == gSeq0[k].element)',
   '//@ loopinv [C03] popped.rest: all(i, 0, list.count, list.seq[i] == gSeq0[i + len(values)])',
   '//@ ensures internal [C03] reply.len: err == nil && list != nil ==> len(values) == ite(old(count) < gN0, ite(old(count) < 0, 0, old(count)), gN0)',
   '//@ ensures internal [C03] reply.values: err == nil && list != nil ==> all(k, 0, len(values), values[k] == gSeq0[k].element)',
   '//@ ensures internal [C03] rest: err == nil && list != nil ==> all(i, 0, list.count, list.seq[i] == gSeq0[i + len(values)])'],
 'rpop': [
   '//@ requires [C13,C03] count.nonneg: count >= 0',
   '//@ loopinv [C03] popped.budget: len(values) + count == ite(old(count) > gN0, gN0, old(count))',
   '//@ ghostafter "list, err := dsc.getListUnlocked(keyName)" : gSeq0 = list.seq',
   '//@ ghostafter "list, err := dsc.getListUnlocked(keyName)" : gN0 = list.count',
   '//@ loopinv [C03] popped: len(values) + list.count == gN0 && count >= 0 && count <= list.count',
   '//@ loopinv [C03] popped.values: all(k, 0, len(values), values[k] == gSeq0[gN0 - 1 - k].element)',
   '//@ loopinv [C03] popped.rest: all(i, 0, list.count, list.seq[i] == gSeq0[i])',
   '//@ ensures internal [C03] reply.len: err == nil && list != nil ==> len(values) == ite(old(count) < gN0, ite(old(count) < 0, 0, old(count)), gN0)',
   '//@ ensures internal [C03] reply.values: err == nil && list != nil ==> all(k, 0, len(values), values[k] == gSeq0[gN0 - 1 - k].element)',
   '//@ ensures internal [C03] rest: err == nil && list != nil ==> all(i, 0, list.count, list.seq[i] == gSeq0[i])'],
 'expireTime': [
   '//@ ensures internal [C07] reported: exists && sk.expiresAt < maxTime ==> valid == 0 && expiration == sk.expiresAt',
   '//@ ensures internal [C07] missing: !exists ==> valid == -2',
   '//@ ensures internal [C07] no.deadline: exists && !(sk.expiresAt < maxTime) ==> valid == -1'],
 'persist': [
   '//@ ensures internal [C07] cleared: output.data == respInt(1) ==> exists && sk.expiresAt == maxTime && old(sk.expiresAt) < maxTime',
   '//@ ensures internal [C07] nothing: output.data != respInt(1) ==> output.data == respInt(0) && !mutated && !bumped',
   '//@ ensures internal [C07] when: (exists && old(sk.expiresAt) < maxTime) == (output.data == respInt(1))'],
 'del': [
   # DEL leaves none of the named keys in the keyspace and counts at most one per name
   '//@ loop 1 invariant [C06] gone.so.far: reclaim ==> allsel(i, 0, ri1, !dsc.ds.data.vdom[keyNames[i]])',
   '//@ loop 1 invariant [C06] counted: 0 <= count && count <= ri1 && count == gFound',
   '//@ ghostentry gFound = 0',
   '//@ ghostafter "sk, exists := dsc.getKeyObjectUnlocked(keyName)" : if exists : gFound = gFound + 1',
   '//@ ensures internal [C06] counts.live: count == gFound',
   '//@ ensures internal [C06] gone: reclaim ==> allsel(i, 0, len(keyNames), !dsc.ds.data.vdom[keyNames[i]])',
   '//@ ensures internal [C06] reply: output.data == respInt(count) && 0 <= count && count <= len(keyNames)'],
 'exists': [
   '//@ ghostentry gFound = 0',
   '//@ ghostafter "_, exists := dsc.getKeyObjectUnlocked(keyName)" : if exists : gFound = gFound + 1',
   '//@ loop 1 invariant [C06] counted: 0 <= count && count <= ri1 && count == gFound',
   '//@ ensures internal [C06] counts.live: count == gFound',
   '//@ ensures internal [C06] reply: output.data == respInt(count) && 0 <= count && count <= len(keyNames)'],
 'setAddWorkerUnlocked': [
   # SADD: afterwards every named member is in the set; the reply counts only members that were not there
   '//@ ghostentry gFound = 0',
   '//@ ghostafter "_, exists := m.get(memberName)" : if !exists : gFound = gFound + 1',
   '//@ loop 1 invariant [C05] members.in: m != nil && allsel(i, 0, ri1, m.vdom[memberNames[i]])',
   '//@ loop 1 invariant [C05] added.new: added == gFound && 0 <= added && added <= ri1',
   '//@ ensures internal [C05] members.in: !wrongType ==> allsel(i, 0, len(memberNames), m.vdom[memberNames[i]])',
   '//@ ensures internal [C05] added.new: !wrongType ==> added == gFound && added <= len(memberNames)',
   '//@ modifies ghost.gFound'],
 'setHasMember': [
   '//@ ensures internal [C05] member: objExists && m != nil ==> output.data == respInt(ite(m.vdom[memberName], 1, 0))',
   '//@ ensures internal [C05] missing: !objExists ==> output.data == respInt(0)'],
 'setHasMembers': [
   '//@ loop 1 invariant [C05] answered: len(answers) == len(memberNames) && m != nil && allsel(i, 0, ri1, answers[i] == ite(m.vdom[memberNames[i]], 1, 0))',
   '//@ assertafter "for idx, memberName := range memberNames" [C05] answered.all: allsel(i, 0, len(memberNames), answers[i] == ite(m.vdom[memberNames[i]], 1, 0))',
   '//@ assertbefore "output = nativeValueToResp(answers)" [C05] missing.zero: !objExists ==> len(answers) == len(memberNames) && allsel(i, 0, len(answers), answers[i] == 0)'],
 'getHashTableField': [
   # HGET / HEXISTS / HSTRLEN: the value the view binds the field to, or "does not exist"
   '//@ ensures internal [C04] found: objExists && m != nil && m.vdom[fieldName] ==> ve == VALUE_EXISTS && istype(m.vval[fieldName], string) ==> val == unbox(m.vval[fieldName], string)',
   '//@ ensures internal [C04] found.exists: objExists && m != nil && m.vdom[fieldName] ==> ve == VALUE_EXISTS',
   '//@ ensures internal [C04] absent: objExists && m != nil && !m.vdom[fieldName] ==> ve == VALUE_DOESNT_EXIST',
   '//@ ensures internal [C04] missing: !objExists ==> ve == VALUE_DOESNT_EXIST'],
 'getHashTableCount': [
   '//@ ensures internal [C04] count: objExists && m != nil ==> count == m.count && !wrongType',
   '//@ ensures internal [C04] missing: !objExists ==> count == 0 && !wrongType'],
 'getHashTableFieldValues': [
   # HMGET: one answer per requested field, in request order; nil exactly for the fields the hash does not have
   '//@ loop 1 invariant [C04] answered: len(vals) == ri1 && m != nil && allsel(i, 0, ri1, (vals[i] != nil) == m.vdom[fieldNames[i]])',
   '//@ ensures internal [C04] one.each: !wrongType ==> len(vals) == len(fieldNames)',
   '//@ ensures internal [C04] present: !wrongType && objExists ==> allsel(i, 0, len(fieldNames), (vals[i] != nil) == m.vdom[fieldNames[i]])',
   '//@ ensures internal [C04] missing.nil: !objExists ==> allsel(i, 0, len(vals), vals[i] == nil)'],
 'lremove': [
   '//@ mode int', '//@ use *',
   # LREM: never more than |count| removals (count 0: no limit), only elements equal to the argument, the list shrinks by the reply
   '//@ ghostafter "list, err := dsc.getListUnlocked(keyName)" : gN0 = list.count',
   '//@ loopinv [C03] listwf.loop: list != nil ==> listWF(list)',
   '//@ loopinv [C03] removed.count: 0 <= removed && removed <= count && list.count + removed == gN0',
   '//@ loop 1 invariant [C03] walk.fwd: item == nil || (item.owner == list && 0 <= item.idx && item.idx < list.count && list.seq[item.idx] == item)',
   '//@ loop 2 invariant [C03] walk.bwd: item == nil || (item.owner == list && 0 <= item.idx && item.idx < list.count && list.seq[item.idx] == item)',
   '//@ assertbefore "dsc.removeUnlocked(keyName, list, item)" [C03] only.matches: string(item.element) == element',
   '//@ ensures internal [C03] shrunk: err == nil && list != nil && gN0 > 0 ==> list.count + removed == gN0 && removed >= 0',
   '//@ ensures internal [C03] limit: err == nil && list != nil && gN0 > 0 && old(count) != 0 && old(count) > -9223372036854775808 ==> removed <= ite(old(count) < 0, -old(count), old(count))'],
 'getKeys': [
   # MGET / LCS: one answer per key, in order; nil for a missing key and for a key of another type
   '//@ loop 1 invariant [C02] one.each: len(vals) == ri1',
   '//@ assertbefore "vals = append(vals, val)" [C02] answer: (val != nil) == (objExists && flagHasOne(sk.flags, FLAG_KEY_TYPE_STRING))',
   '//@ ensures internal [C02] one.each: len(vals) == len(keyName)'],
 'getHashTableRandField': [
   '//@ requires [C13,C04] count.negatable: count == nil || *count > -9223372036854775808',
   '//@ use redisDict.pickRandomItems.members redisDict.pickUniqueRandomItems.members',
   # HRANDFIELD with a count: exactly |count| picks for a negative count, min(count, HLEN) for a positive one, one without a count
   '//@ assertafter "items = m.pickRandomItems(arraySize, 85)" [C04] negative.exact: len(items) == ite(count == nil, 1, -(*count))',
   '//@ assertafter "items = m.pickUniqueRandomItems(arraySize, 85)" [C04] positive.bounded: len(items) == ite(*count > m.count, m.count, *count)'],
 'getSetRandMember': [
   '//@ requires [C13,C05] count.negatable: count == nil || *count > -9223372036854775808',
   # SRANDMEMBER with a count: a negative count yields exactly |count| picks (repeats allowed), a positive one at most count and at most the cardinality
   '//@ use redisDict.pickRandomItems.members redisDict.pickUniqueRandomItems.members',
   '//@ loop "for _, item := range items" invariant [C05] copied: len(a) == ri',
   '//@ loop "for _, item := range items" invariant picked: allsel(k, 0, len(items), items[k] != nil)',
   '//@ assertbefore "output = nativeValueToResp(a)" [C05] negative.exact: *count < 0 ==> len(a) == -(*count)',
   '//@ assertbefore "output = nativeValueToResp(a)" [C05] positive.bounded: *count >= 0 ==> len(a) <= *count && len(a) <= m.count',
   '//@ assertbefore "output.data = respBulkString(a[0])" [C05] single: len(a) == 1'],
 'randomKey': [
   # RANDOMKEY terminates with the lock held for at most one pass over the table (expired keys stay in the table: a walk that waits for a live key would never end when there is none), and answers a live key of the table
   '//@ loop 1 decreases l - visited',
   '//@ loop 1 invariant [C13,C06] one.pass: 0 <= visited && visited <= l && 0 <= n && n < l && l == len(dsc.ds.data.buckets)'],
 'lmpop': ['// LMPOP serves exactly one list - the first non-empty one - and takes at most COUNT elements from it',
   '//@ ghostentry gFound = 0',
   '//@ ghostbefore "result = []any{keyName, elements}" : gFound = gFound + 1',
   '//@ loop "for _, keyName := range keyNames" invariant [C03] none.served.yet: gFound == 0 && len(elements) == 0 && count == old(count)',
   '//@ loop 2 invariant [C03] budget.left: len(elements) + count == old(count) && gFound == 0 && (old(count) <= 0 ==> len(elements) == 0) && (old(count) > 0 ==> count >= 0)',
   '//@ loop 3 invariant [C03] budget.right: len(elements) + count == old(count) && gFound == 0 && (old(count) <= 0 ==> len(elements) == 0) && (old(count) > 0 ==> count >= 0)',
   '//@ assertbefore "result = []any{keyName, elements}" [C03] served.first: gFound == 1',
   '//@ assertbefore "result = []any{keyName, elements}" [C03] served.budget: len(elements) <= ite(old(count) > 0, old(count), 0)',
   '//@ loop "for _, keyName := range keyNames" invariant [C06] nomut: !mutated', '//@ loop 2 invariant [C06] noempty.left: list.count == 0 ==> !dsc.ds.data.vdom[keyName]', '//@ loop 3 invariant [C06] noempty.right: list.count == 0 ==> !dsc.ds.data.vdom[keyName]', '//@ assertbefore "result = []any{keyName, elements}" [C06] noempty: list.count == 0 ==> !dsc.ds.data.vdom[keyName]'],
 'addInt': ['//@ ghostafter "value, err = strconv.ParseInt" : gParsed = value',
            '//@ ghostafter "canonical := strconv.FormatInt(value, 10)" : gParsedOK = (err == nil && canonical)',
            '//@ requires !gParsedOK',
            '//@ ensures [C02] overflow.iff: gParsedOK ==> ((exists == VALUE_OVERFLOW) == addOverflows64(gParsed, delta))',
            '//@ ensures [C02] sum: gParsedOK && exists != VALUE_OVERFLOW ==> value == gParsed + delta && exists == VALUE_EXISTS',
            '//@ ensures [C02] inert: (exists == VALUE_OVERFLOW || exists == VALUE_WRONG_TYPE || exists == VALUE_WRONG_FORMAT) ==> !mutated',
            '//@ ensures [C02] format: old(gParsedOK) == false && !gParsedOK && exists == VALUE_EXISTS ==> value == delta'],
 'fieldAddInt': ['//@ ghostafter "oldInt, err := strconv.ParseInt" : gParsed = oldInt',
            '//@ ghostafter "canonical := strconv.FormatInt(oldInt, 10)" : gParsedOK = (err == nil && canonical)',
            '//@ requires !gParsedOK',
            '//@ ensures [C04] overflow.iff: gParsedOK ==> ((ve == VALUE_OVERFLOW) == addOverflows64(gParsed, delta))',
            '//@ ensures [C04] sum: gParsedOK && ve != VALUE_OVERFLOW ==> value == gParsed + delta && ve == VALUE_EXISTS',
            '//@ ensures [C04] newfield: ve == VALUE_DOESNT_EXIST ==> value == delta'],
 'setHashTableWorker': ['//@ ghostentry gHashOptions = options',
            '//@ loop "for idx, fieldName := range fieldNames" invariant [C04] nx.kept: flagHasOne(options, SET_NOT_EXIST) ==> allstr(q, !old(m.vdom[q]) || m.vval[q] == old(m.vval[q]))',
            '//@ loop "for idx, fieldName := range fieldNames" invariant [C04] grows: allstr(q, !old(m.vdom[q]) || m.vdom[q])',
            '//@ loop "for idx, fieldName := range fieldNames" invariant [C04] stored: allsel(i, 0, ri1, m.vdom[fieldNames[i]])',
            '//@ loop "for idx, fieldName := range fieldNames" invariant m != nil',
            '//@ ensures internal [C04] nx.kept: !wrongType && flagHasOne(options, SET_NOT_EXIST) ==> allstr(q, !old(m.vdom[q]) || m.vval[q] == old(m.vval[q]))',
            '//@ ensures internal [C04] stored: !wrongType ==> allsel(i, 0, len(fieldNames), m.vdom[fieldNames[i]])',
            '//@ ensures [C04] options.seen: gHashOptions == options',
            '//@ requires [C13] samelen: len(values) >= len(fieldNames)'],
 'getKey': ['//@ ensures free strsize: len(val) <= 536870912', '//@ ensures [C07,C06] readonly: !mutated'],
 'getKeyBytes': ['//@ ensures free strsize: len(val) <= 536870912', '//@ ensures [C07,C06] readonly: !mutated', '// the bytes are used by the caller after the lock is released, while SETBIT/BITFIELD write the stored array in place: what is handed out is a slice this call made itself, with the stored content (C08: a snapshot; C16: no memory shared outside the lock)', '//@ ensures internal [C08,C16,C18] snapshot: exists == VALUE_EXISTS ==> madehere(val) && len(val) == len(strBytes) && allsel(k, 0, len(val), val[k] == strBytes[k])'],
 'setRange': ['//@ requires [C13,C02] offset.range: 0 <= offset && offset <= 536870912 && len(substring) <= 536870912 - offset',
            '//@ ensures [C02] empty.inert: len(substring) == 0 ==> !mutated',
            '//@ ensures internal [C02] length: mutated ==> istype(newSk.payload, []byte) && result.data == respInt(len(unbox(newSk.payload, []byte))) && len(unbox(newSk.payload, []byte)) >= offset + len(substring) && flagHasOne(newSk.flags, FLAG_KEY_TYPE_STRING)',
            '//@ ensures internal [C07] keeps.deadline: mutated && exists ==> newSk.expiresAt == old(oldSk.expiresAt)'],
 'setHashTableFields': ['//@ requires [C13] samelen: len(values) >= len(fieldNames)'],
 'deleteHashTableFields': ['//@ loop "for _, fieldName := range fieldNames" invariant [C06] noempty.loop: removed > 0 ==> m.count > 0', '//@ assertafter "for _, fieldName := range fieldNames" [C06] noempty: removed > 0 && m.count == 0 ==> !dsc.ds.data.vdom[keyName]','//@ loop "for _, fieldName := range fieldNames" invariant [C04] gone: allsel(i, 0, ri1, !m.vdom[fieldNames[i]])',
            '//@ loop "for _, fieldName := range fieldNames" invariant m != nil',
            '//@ assertbefore "break" [C04] emptied: m.count == 0 && !dsc.ds.data.vdom[keyName]'],
 'diffWorker': ['//@ ghostentry gAcc = gEmptySet',
            # C06: every operand is looked up (and so type-checked), also when the running result is already empty
            '//@ ghostentry gOperandsSeen = 0',
            '//@ ghostafter "sk2, objExists := dsc.getKeyObjectUnlocked(keyName)" : gOperandsSeen = gOperandsSeen + 1',
            '//@ loop "for _, keyName := range keyNames" invariant [C06,C05] operands.seen: gOperandsSeen == ri1',
            '//@ ensures [C06,C05] operands.all.checked: !wrongType ==> gOperandsSeen == len(keyNames)',
            '//@ requires free emptyset: allstr(q, !gEmptySet[q])',
            '//@ ghostafter "m2 := sk2.getSet()" : if m2 != nil : gSnapDom = d.vdom',
            '//@ ghostafter "m2 := sk2.getSet()" : if m2 != nil : gAccPrev = gAcc',
            '//@ ghostafter "m2 := sk2.getSet()" : if m2 != nil : gAcc = mapunion(gAcc, m2.vdom)',
            '//@ loop "for _, keyName := range keyNames" invariant [C05] fresh: d != nil && m != nil && d.scratch && d != m && !wrongType',
            '//@ loop "for _, keyName := range keyNames" invariant [C05] operands: forall r *redisDict :: asref(r) < old(alloc()) ==> r.vdom == old(r.vdom) && r.vval == old(r.vval) && r.count == old(r.count)',
            '//@ loop "for _, keyName := range keyNames" invariant [C05] result: allstr(q, d.vdom[q] == (m.vdom[q] && !gAcc[q]))',
            '//@ loop "for i := m2.createIterator(); i.next();" invariant [C05] fresh: d != nil && m != nil && m2 != nil && d.scratch && d != m && !m2.scratch && i != nil && i.dict == m2 && !wrongType',
            '//@ loop "for i := m2.createIterator(); i.next();" invariant [C05] operands: forall r *redisDict :: asref(r) < old(alloc()) ==> r.vdom == old(r.vdom) && r.vval == old(r.vval) && r.count == old(r.count)',
            '//@ loop "for i := m2.createIterator(); i.next();" invariant [C05] step: allstr(q, d.vdom[q] == (gSnapDom[q] && !(m2.vdom[q] && dslot(sip(q), len(m2.buckets)) < int(i.bucketNumber))))',
            '//@ loop "for i := m2.createIterator(); i.next();" invariant [C05] snap: allstr(q, gSnapDom[q] == (m.vdom[q] && !gAccPrev[q])) && allstr(q, gAcc[q] == (gAccPrev[q] || m2.vdom[q]))',
            '//@ ensures [C05] operands: forall r *redisDict :: asref(r) < old(alloc()) ==> r.vdom == old(r.vdom) && r.vval == old(r.vval) && r.count == old(r.count)',
            '//@ ensures internal [C05] difference: !wrongType ==> allstr(q, d.vdom[q] == (m.vdom[q] && !gAcc[q]))',
            '//@ ensures internal [C05] missing.first: !wrongType && !objExists ==> allstr(q, !d.vdom[q] && !m.vdom[q])',
            '//@ use newRedisDict.empty',
            '//@ modifies ghost.gAcc ghost.gAccPrev ghost.gSnapDom ghost.gOperandsSeen',
            '//@ use redisDictIter.next.view.skipped redisDictIter.next.view.done redisDictIter.next.view.unique',
            '//@ ensures [C05] result.scratch: !wrongType ==> d != nil && d.scratch'],
 'unionWorker': ['//@ ghostentry gAcc = gEmptySet',
            # C06: every operand is looked up (and so type-checked), also when the running result is already empty
            '//@ ghostentry gOperandsSeen = 0',
            '//@ ghostafter "sk2, objExists := dsc.getKeyObjectUnlocked(keyName)" : gOperandsSeen = gOperandsSeen + 1',
            '//@ loop "for _, keyName := range keyNames" invariant [C06,C05] operands.seen: gOperandsSeen == ri1',
            '//@ ensures [C06,C05] operands.all.checked: !wrongType ==> gOperandsSeen == len(keyNames)',
            '//@ requires free emptyset: allstr(q, !gEmptySet[q])',
            '//@ ghostafter "m2 := sk2.getSet()" : if m2 != nil : gSnapDom = d.vdom',
            '//@ ghostafter "m2 := sk2.getSet()" : if m2 != nil : gAccPrev = gAcc',
            '//@ ghostafter "m2 := sk2.getSet()" : if m2 != nil : gAcc = mapunion(gAcc, m2.vdom)',
            '//@ loop "for _, keyName := range keyNames" invariant [C05] fresh: d != nil && m != nil && d.scratch && d != m && !wrongType',
            '//@ loop "for _, keyName := range keyNames" invariant [C05] operands: forall r *redisDict :: asref(r) < old(alloc()) ==> r.vdom == old(r.vdom) && r.vval == old(r.vval) && r.count == old(r.count)',
            '//@ loop "for _, keyName := range keyNames" invariant [C05] result: allstr(q, d.vdom[q] == (m.vdom[q] || gAcc[q]))',
            '//@ loop "for i := m2.createIterator(); i.next();" invariant [C05] fresh: d != nil && m != nil && m2 != nil && d.scratch && d != m && !m2.scratch && i != nil && i.dict == m2 && !wrongType',
            '//@ loop "for i := m2.createIterator(); i.next();" invariant [C05] operands: forall r *redisDict :: asref(r) < old(alloc()) ==> r.vdom == old(r.vdom) && r.vval == old(r.vval) && r.count == old(r.count)',
            '//@ loop "for i := m2.createIterator(); i.next();" invariant [C05] step: allstr(q, d.vdom[q] == (gSnapDom[q] || (m2.vdom[q] && dslot(sip(q), len(m2.buckets)) < int(i.bucketNumber))))',
            '//@ loop "for i := m2.createIterator(); i.next();" invariant [C05] snap: allstr(q, gSnapDom[q] == (m.vdom[q] || gAccPrev[q])) && allstr(q, gAcc[q] == (gAccPrev[q] || m2.vdom[q]))',
            '//@ ensures [C05] operands: forall r *redisDict :: asref(r) < old(alloc()) ==> r.vdom == old(r.vdom) && r.vval == old(r.vval) && r.count == old(r.count)',
            '//@ ensures internal [C05] union: !wrongType ==> allstr(q, d.vdom[q] == (m.vdom[q] || gAcc[q]))',
            '//@ modifies ghost.gAcc ghost.gAccPrev ghost.gSnapDom ghost.gOperandsSeen',
            '//@ use redisDictIter.next.view.skipped redisDictIter.next.view.done redisDictIter.next.view.unique',
            '//@ ensures [C05] result.scratch: !wrongType ==> d != nil && d.scratch'],
 'intersectWorker': ['//@ ghostentry gAcc = gFullSet',
            '//@ requires free fullset: allstr(q, gFullSet[q])',
            '//@ requires free emptyset: allstr(q, !gEmptySet[q])',
            '//@ ghostafter "removalNames := []string{}" : gSnapDom = d.vdom',
            '//@ ghostafter "removalNames := []string{}" : gAccPrev = gAcc',
            '//@ ghostafter "removalNames := []string{}" : gAcc = mapinter(gAcc, m2.vdom)',
            '//@ ghostafter "removalNames := []string{}" : gRem = gEmptySet',
            '//@ ghostafter "removalNames := []string{}" : gDone = gEmptySet',
            '//@ ghostafter "removalNames = append(removalNames, i.key)" : gRem = mapset(gRem, i.key, true)',
            '//@ ghostafter "removalNames = append(removalNames, i.key)" : gRemIdx = mapset(gRemIdx, i.key, len(removalNames)-1)',
            '//@ ghostafter "d.remove(removalName)" : gDone = mapset(gDone, removalName, true)',
            '//@ ghostafter "d = newRedisDict()" : gAcc = gEmptySet',
            '//@ use newRedisDict.empty',
            '//@ ensures internal [C05] intersection: !wrongType && objExists ==> allstr(q, d.vdom[q] == (m.vdom[q] && gAcc[q]))',
            '//@ ensures internal [C05] missing.first: !wrongType && !objExists ==> allstr(q, !d.vdom[q])',
            '//@ loop "for idx, keyName := range keyNames" invariant [C05] fresh: d != nil && m != nil && d.scratch && !m.scratch && !wrongType && dictSized(m)',
            '//@ loop "for idx, keyName := range keyNames" invariant [C05] operands: forall r *redisDict :: !r.scratch ==> r.vdom == old(r.vdom) && r.vval == old(r.vval) && r.count == old(r.count)',
            '//@ loop "for idx, keyName := range keyNames" invariant [C05] result: allstr(q, d.vdom[q] == (m.vdom[q] && gAcc[q]))',
            # SINTER / SINTERSTORE: an absent operand makes the result empty, but the operands after it are still type-checked
            '//@ ghostentry gRestChecked = false',
            '//@ ghostafter "wrongType = dsc.anyWrongTypeSetUnlocked(" : gRestChecked = true',
            '//@ assertbefore "d = newRedisDict()" [C05] rest.checked: gRestChecked',
            '//@ loop "for i := m.createIterator(); i.next();" invariant [C05] fresh: d != nil && m != nil && m2 != nil && d.scratch && !m.scratch && !m2.scratch && i != nil && i.dict == m && !wrongType && d.vdom == gSnapDom && dictSized(m)',
            '//@ loop "for i := m.createIterator(); i.next();" invariant [C05] operands: forall r *redisDict :: !r.scratch ==> r.vdom == old(r.vdom) && r.vval == old(r.vval) && r.count == old(r.count)',
            '//@ loop "for i := m.createIterator(); i.next();" invariant [C05] collected: allstr(q, gRem[q] == (m.vdom[q] && !m2.vdom[q] && dslot(sip(q), len(m.buckets)) < int(i.bucketNumber)))',
            '//@ loop "for i := m.createIterator(); i.next();" invariant [C05] witness: allstr(q, !gRem[q] || (0 <= gRemIdx[q] && gRemIdx[q] < len(removalNames) && removalNames[gRemIdx[q]] == q))',
            '//@ loop "for i := m.createIterator(); i.next();" invariant [C05] listed: allsel(k, 0, len(removalNames), gRem[removalNames[k]])',
            '//@ loop "for i := m.createIterator(); i.next();" invariant [C05] snap: allstr(q, gSnapDom[q] == (m.vdom[q] && gAccPrev[q])) && allstr(q, gAcc[q] == (gAccPrev[q] && m2.vdom[q])) && allstr(q, !gDone[q])',
            '//@ loop "for _, removalName := range removalNames" invariant [C05] fresh: d != nil && m != nil && m2 != nil && d.scratch && !m.scratch && !m2.scratch && !wrongType && dictSized(m)',
            '//@ loop "for _, removalName := range removalNames" invariant [C05] operands: forall r *redisDict :: !r.scratch ==> r.vdom == old(r.vdom) && r.vval == old(r.vval) && r.count == old(r.count)',
            '//@ loop "for _, removalName := range removalNames" invariant [C05] removing: allstr(q, d.vdom[q] == (gSnapDom[q] && !gDone[q])) && allstr(q, !gDone[q] || gRem[q])',
            '//@ loop "for _, removalName := range removalNames" invariant [C05] progress: allstr(q, !(gRem[q] && gRemIdx[q] < ri3) || gDone[q])',
            '//@ loop "for _, removalName := range removalNames" invariant [C05] keep: allstr(q, gRem[q] == (m.vdom[q] && !m2.vdom[q])) && allstr(q, !gRem[q] || (0 <= gRemIdx[q] && gRemIdx[q] < len(removalNames) && removalNames[gRemIdx[q]] == q)) && allstr(q, gSnapDom[q] == (m.vdom[q] && gAccPrev[q])) && allstr(q, gAcc[q] == (gAccPrev[q] && m2.vdom[q]))',
            '//@ modifies ghost.gAcc ghost.gAccPrev ghost.gSnapDom ghost.gRem ghost.gRemIdx ghost.gDone ghost.gRestChecked',
            '//@ use redisDictIter.next.view.skipped redisDictIter.next.view.done redisDictIter.next.view.unique',
            '//@ ensures [C05] operands: forall r *redisDict :: !r.scratch ==> r.vdom == old(r.vdom) && r.vval == old(r.vval) && r.count == old(r.count)',
            '//@ ensures [C05] result.scratch: !wrongType ==> d != nil && d.scratch'],
 'setRemove': ['//@ loop "for _, member := range members" invariant [C05] gone: m != nil && allsel(i, 0, ri1, !m.vdom[members[i]])',
            '//@ loop "for _, member := range members" invariant [C05] others: allstr(q, !m.vdom[q] || old(m.vdom[q]))',
            '//@ ensures internal [C05] gone: objExists && m != nil ==> allsel(i, 0, len(members), !m.vdom[members[i]])',
            '//@ ensures internal [C05] emptied: objExists && m != nil && removals > 0 && m.count == 0 ==> !dsc.ds.data.vdom[keyName]'],
 'setMove': ['//@ ensures internal [C05] same: output.data != wrongTypeError && objExists && ss != nil && exists && source == destination ==> output.data == respInt(1) && !mutated',
            '//@ ensures internal [C05] moved: output.data != wrongTypeError && objExists && ss != nil && exists && source != destination && !wrongType ==> !ss.vdom[memberName] && output.data == respInt(1)',
            '//@ ensures internal [C05] emptied: output.data != wrongTypeError && objExists && ss != nil && exists && source != destination && !wrongType && ss.count == 0 ==> !dsc.ds.data.vdom[source]',
            '//@ ensures internal [C05] absent: output.data != wrongTypeError && objExists && ss != nil && !exists ==> output.data == respInt(0) && !mutated'],
 'setOperationStore': ['//@ callback op oneof diffWorker unionWorker intersectWorker',
            '//@ ensures internal [C05] empty.deletes: !wrongType && d.count == 0 ==> !dsc.ds.data.vdom[destination] && output.data == respInt(0)',
            '//@ ensures internal [C05] stored: !wrongType && d.count != 0 ==> dsc.ds.data.vdom[destination] && istype(dsc.ds.data.vval[destination], *storeKey) && unbox(dsc.ds.data.vval[destination], *storeKey).payload == d && flagHasOne(unbox(dsc.ds.data.vval[destination], *storeKey).flags, FLAG_KEY_TYPE_SET)'],
 'setOperation': ['//@ callback op oneof diffWorker unionWorker intersectWorker'],
 'setOperationCount': ['//@ callback op oneof intersectWithLimitWorker'],
 'intersectWithLimitWorker': ['//@ ensures [C05] operands: forall r *redisDict :: !r.scratch ==> r.vdom == old(r.vdom) && r.vval == old(r.vval) && r.count == old(r.count)',
            '//@ ensures [C05] result.scratch: !wrongType ==> d != nil && d.scratch',
            '//@ loop 1 invariant [C05] operands: forall r *redisDict :: !r.scratch ==> r.vdom == old(r.vdom) && r.vval == old(r.vval) && r.count == old(r.count)',
            '//@ loop "for iter := s1.createIterator(); iter.next();" invariant [C05] operands: forall r *redisDict :: !r.scratch ==> r.vdom == old(r.vdom) && r.vval == old(r.vval) && r.count == old(r.count)',
            '//@ loop 1 invariant [C05] sets: !wrongType && allsel(k, 0, len(sets), sets[k] != nil && !sets[k].scratch)',
            '//@ loop "for iter := s1.createIterator(); iter.next();" invariant [C05] sets: allsel(k, 0, len(sets), sets[k] != nil && !sets[k].scratch) && s1 != nil && !s1.scratch',
            '//@ loop "for i := 1; i < len(sets); i++" invariant [C05] sets: allsel(k, 0, len(sets), sets[k] != nil && !sets[k].scratch) && i >= 1',
            '//@ loop "for iter := s1.createIterator(); iter.next();" invariant [C05] fresh: d != nil && d.scratch && !wrongType',
            '//@ loop "for i := 1; i < len(sets); i++" invariant [C05] operands: forall r *redisDict :: !r.scratch ==> r.vdom == old(r.vdom) && r.vval == old(r.vval) && r.count == old(r.count)',
            '//@ loop "for i := 1; i < len(sets); i++" invariant [C05] fresh: d != nil && d.scratch && !wrongType',
            # SINTERCARD: an absent key makes the result empty; with LIMIT the count never exceeds it; every counted member is in the first set
            '//@ ensures internal [C05] missing.empty: !wrongType && missing ==> d.count == 0',
            '//@ loop "for iter := s1.createIterator(); iter.next();" invariant [C05] limit: limit > 0 ==> d.count < limit',
            '//@ loop "for i := 1; i < len(sets); i++" invariant [C05] limit: limit > 0 ==> d.count < limit',
            '//@ ensures [C05] limit: !wrongType && limit > 0 ==> d.count <= limit',
            '//@ loop "for iter := s1.createIterator(); iter.next();" invariant [C05] members.first: allstr(q, !d.vdom[q] || s1.vdom[q])',
            '//@ loop "for i := 1; i < len(sets); i++" invariant [C05] members.first: allstr(q, !d.vdom[q] || s1.vdom[q])',
            '//@ loop "for i := 1; i < len(sets); i++" invariant [C05] members.checked: found ==> allsel(k, 1, i, sets[k].vdom[iter.key])'],
 'setKeys': ['//@ requires [C13] samelen: len(values) >= len(keys)',
            '//@ use dataStore.newStoreKeyUnlocked.others',
            '//@ loop "for _, keyName := range keys" invariant [C02] nomut: !mutated && flagHasOne(options, SET_NOT_EXIST)',
            '//@ loop "for idx, keyName := range keys" invariant [C02] stored: allsel(i, 0, ri2, dsc.ds.data.vdom[keys[i]])',
            '//@ loop "for idx, keyName := range keys" invariant [C02] reply: result.data != respInt(0)',
            # MSET / MSETNX: every key written ends up as a plain string without a deadline (the last pair wins for a repeated key)
            '//@ use dataStore.newStoreKeyUnlocked.keys.kept dataStore.newStoreKeyUnlocked.installed dataStore.newStoreKeyUnlocked.fresh',
            '//@ loop "for idx, keyName := range keys" invariant [C02,C07] plain: allsel(i, 0, ri2, istype(dsc.ds.data.vval[keys[i]], *storeKey) && unbox(dsc.ds.data.vval[keys[i]], *storeKey) != nil && flagHasOne(unbox(dsc.ds.data.vval[keys[i]], *storeKey).flags, FLAG_KEY_TYPE_STRING) && unbox(dsc.ds.data.vval[keys[i]], *storeKey).expiresAt == maxTime)',
            '//@ ensures internal [C02,C07] all.plain: result.data != respInt(0) ==> allsel(i, 0, len(keys), istype(dsc.ds.data.vval[keys[i]], *storeKey) && flagHasOne(unbox(dsc.ds.data.vval[keys[i]], *storeKey).flags, FLAG_KEY_TYPE_STRING) && unbox(dsc.ds.data.vval[keys[i]], *storeKey).expiresAt == maxTime)',
            '//@ ensures internal [C02] msetnx.none: result.data == respInt(0) ==> !mutated && flagHasOne(options, SET_NOT_EXIST)',
            '//@ ghostentry gSawExisting = false',
            '//@ ghostafter "_, exists := dsc.getKeyObjectUnlocked(keyName)" : if exists : gSawExisting = true',
            '//@ loop "for _, keyName := range keys" invariant [C02] none.yet: !gSawExisting',
            '//@ ensures [C02] msetnx.refused: flagHasOne(options, SET_NOT_EXIST) && gSawExisting ==> result.data == respInt(0)',
            '//@ ensures [C02] msetnx.accepted: flagHasOne(options, SET_NOT_EXIST) && !gSawExisting ==> result.data == respInt(1)',
            '//@ ensures internal [C02] all.stored: result.data != respInt(0) ==> allsel(i, 0, len(keys), dsc.ds.data.vdom[keys[i]])'],
 'setKey': ['// without NX / XX the value is always stored (APPEND of an empty string to a missing key creates the key)', '//@ ensures [C02] unconditional.stores: valid != VALUE_WRONG_TYPE && !flagHasOne(options, SET_NOT_EXIST) && !flagHasOne(options, SET_EXISTS) ==> mutated', '// without GET the reply tells whether the value was set: OK exactly when a new value was stored, nil when NX/XX held it back', '//@ ensures [C02] performed.reply: valid != VALUE_WRONG_TYPE && !flagHasOne(options, bitflags(SET_GET)) ==> ((val.data == rstrOK) == mutated) && (!mutated ==> val.data == nil)', '// APPEND: the stored value grows by exactly the argument, placed after the old bytes', '//@ ghostentry gOldLen = 0', '//@ ghostafter "strBytes := oldSk.getStringBytes()" : gOldLen = len(strBytes)', '//@ assertbefore "newSk := dsc.ds.newStoreKeyUnlocked(keyName)" [C02] appended.len: flagHasOne(options, SET_APPEND) ==> len(argBytes) == gOldLen + len(str)', '//@ assertbefore "newSk := dsc.ds.newStoreKeyUnlocked(keyName)" [C02] replaced: !flagHasOne(options, SET_APPEND) ==> len(argBytes) == len(str) && allsel(k, 0, len(str), argBytes[k] == str[k])', '//@ ensures internal [C02] nx.kept: exists && flagHasOne(options, SET_NOT_EXIST) ==> !mutated',
            '//@ ensures internal [C02] xx.missing: !exists && flagHasOne(options, SET_EXISTS) ==> !mutated && val.data == nil',
            '//@ ensures internal [C02] get.old: exists && flagHasOne(options, bitflags(SET_GET)) && valid != VALUE_WRONG_TYPE ==> istype(val.data, respBulkString)',
            '//@ ensures internal [C02] stored: mutated ==> dsc.ds.data.vdom[keyName] && istype(dsc.ds.data.vval[keyName], *storeKey) && unbox(dsc.ds.data.vval[keyName], *storeKey) == newSk && flagHasOne(newSk.flags, FLAG_KEY_TYPE_STRING) && newSk.expiresAt == ite(exists && (flagHasOne(options, SET_KEEP_TTL) || flagHasOne(options, SET_APPEND)), old(oldSk.expiresAt), expiration)',
            '//@ ensures internal [C07] append.keeps.deadline: mutated && exists && flagHasOne(options, SET_APPEND) ==> newSk.expiresAt == old(oldSk.expiresAt)',
            '//@ ensures internal [C02] value: mutated && !flagHasOne(options, SET_APPEND) ==> istype(newSk.payload, []byte) && len(unbox(newSk.payload, []byte)) == len(str)'],
 'getKeySetExpiration': ['// GETEX with an expiry option: the deadline of a string becomes the one asked for; a key of another type keeps its deadline (the command fails)',
            '//@ ensures internal [C07,C02] deadline.applied: objExists && exists == VALUE_EXISTS ==> sk.expiresAt == expiration && mutated',
            '//@ ensures internal [C07,C02,C06] deadline.kept: objExists && exists == VALUE_WRONG_TYPE ==> sk.expiresAt == old(sk.expiresAt)'],
 'dictScanUnlocked': ['//@ callback isMatch','//@ pure','//@ endcallback'],
 'changeBits': ['//@ requires len(srcKeyNames) >= 1','//@ loop 1 invariant len(values) == ri1','//@ loop 2 invariant ri2 > 0 ==> resultBytes != nil'],
}
# methods that are not commands on the keyspace (persistence / dev helpers): no dirty or version clauses
NOSTATE={'save','load','dumpKey'}
# the command family a store method serves: "failed commands are inert" is part of that family's
# semantics too (C02..C05, C18), not only of the keyspace discipline (C06)
def family(n):
    if n in ('setKey','setKeys','setRange','getKey','getKeyBytes','getKeys','getKeySetExpiration','getDeleteKey','addInt','addFloat'): return 'C02'
    if n in ('bitfieldWrite','invertBits','changeBits'): return 'C18'
    if re.match(r'^(l[a-z]|rp|findListItem|getList|ensureList|newList)', n) and n not in ('liveKeyCount','load'): return 'C03'
    if 'HashTable' in n or n.startswith('fieldAdd') or n=='hashTableScan': return 'C04'
    if 'Set' in n or n.startswith(('diff','intersect','union','setMove','setRemove','setScan','setHas','setAdd','setOperation')): return 'C05'
    return None
# a list, hash or set never exists empty (C06): removing commands prove "count 0 ==> key gone" at exit
NOEMPTY_LIST={'lpop','rpop','lremove','ltrim'}
NOEMPTY_PUSH={'lpush','rpush'}
# read-only commands: nothing in the keyspace is written, whatever the reply
READONLY={'getKeys','keys','exists','getKeyType','getHashTableField','getHashTable','getHashTableFieldValues','getHashTableRandField','getHashTableFields','getHashTableValues','getHashTableCount','hashTableScan','getSet','getSetRandMember','getSetMembers','getSetCount','setScan','setHasMember','setHasMembers','lindex','llen','lrange','lpos','randomKey','scan','expireTime','dump','liveKeyCount','setOperation','setOperationCount','diffSet','intersectSet','intersectSetCount','unionSet'}
out=['//go:build verif','','package redisemu','','// GENERATED by /verif/scripts/gen_store_contracts.py — do not edit by hand.','','//@ ghost gWrongType bool','//@ ghost gRestChecked bool','']
for n in names:
    if n in SKIP: continue
    helper = n.endswith('Unlocked') or n in HELPERS
    out.append('//@ func dataStoreCommand.%s'%n)
    out.append('//@ prop C08 C16')
    out.append('//@ guards on')
    out.append('//@ safetyprop C13')
    out.append('//@ requires dscOK(dsc)')
    out += EXTRA.get(n, [])
    fam = family(n)
    C06T = '[C06,C07,%s]' % fam if fam else '[C06,C07]'
    if n in READONLY:
        out.append('//@ ensures [C06%s] readonly: !mutated' % (','+fam if fam else ''))
        out.append('//@ loopinv [C06%s] readonly.loop: !mutated' % (','+fam if fam else ''))
    if n in NOEMPTY_LIST:
        out.append('//@ loopinv [C06] noempty.loop: list != nil && list.count == 0 ==> !dsc.ds.data.vdom[keyName]')
        out.append('//@ ensures internal [C06] noempty: list != nil && list.count == 0 ==> !dsc.ds.data.vdom[keyName]')
    if n in NOEMPTY_PUSH:
        # a push never leaves the list it created empty (the command table demands at least one element)
        out.append('//@ loopinv [C06] noempty.loop: list != nil ==> list.count >= ri1')
        out.append('//@ ensures internal [C06] noempty: err == nil && list != nil && len(values) > 0 ==> list.count > 0')
    out.append('//@ use dataStore.newStoreKeyUnlocked.otherdicts')
    LISTM={'lpush','lpushx','rpush','rpushx','lpop','rpop','linsert','lindex','lrange','lpos','llen','ltrim'}
    if n in LISTM:
        out.append('//@ mode int')
        out.append('//@ use *')
        out.append('//@ loopinv [C03] listwf.loop: list != nil ==> listWF(list)')
        out.append('//@ ensures internal [C03] listwf: list != nil ==> listWF(list)')
    # a list command on a key that holds another type answers the type error (the lookup's verdict is not swallowed)
    body=re.search(r'^func \(dsc \*dataStoreCommand\) %s\(.*?^}' % n, src, re.M|re.S)
    if body and 'list, err := dsc.getListUnlocked(keyName)' in body.group(0) and n not in ('lmove','lmpop'):
        out.append('//@ ghostentry gWrongType = false')
        out.append('//@ ghostafter "list, err := dsc.getListUnlocked(keyName)" : if err != nil : gWrongType = true')
        hdr0=re.search(r'^func \(dsc \*dataStoreCommand\) %s\((.*?)\) (\(.*?\)|[\w\*\.\[\]]+)? ?\{' % n, src, re.M|re.S)
        r0=hdr0.group(2) or ''
        if 'output respValue' in r0:
            out.append('//@ ensures [C03,C06] wrongtype.reported: gWrongType ==> output.data == wrongTypeError')
        elif 'err *respErrorString' in r0:
            out.append('//@ ensures [C03,C06] wrongtype.reported: gWrongType ==> err != nil && *err == wrongTypeError')
    if n in WORKERS:
        out.append('//@ loopinv scratch: d != nil ==> d.scratch')
        out.append('//@ loopinv nomut: mutated == old(mutated)')
        out.append('//@ ensures scratch: d != nil ==> d.scratch')
    # C06: a command that fails leaves every key untouched
    hdr=re.search(r'^func \(dsc \*dataStoreCommand\) %s\((.*?)\) (\(.*?\)|[\w\*\.\[\]]+)? ?\{' % n, src, re.M|re.S)
    rets = hdr.group(2) if hdr and hdr.group(2) else ''
    if not helper and n not in NOSTATE:
        for m in re.finditer(r'(\w+) valueExists', rets):
            r=m.group(1)
            out.append('//@ ensures %s inert.%s: (%s == VALUE_WRONG_TYPE || %s == VALUE_WRONG_FORMAT || %s == VALUE_OVERFLOW) ==> !mutated' % (C06T,r,r,r,r))
        for m in re.finditer(r'(\w+) bool', rets):
            if m.group(1)=='wrongType':
                out.append('//@ ensures %s inert.wrongtype: wrongType ==> !mutated' % C06T)
        for m in re.finditer(r'(\w+) \*respErrorString', rets):
            out.append('//@ ensures %s inert.err: %s != nil ==> !mutated' % (C06T, m.group(1)))
        for m in re.finditer(r'(\w+) respValue', rets):
            out.append('//@ ensures %s inert.wrongtype: %s.data == wrongTypeError ==> !mutated' % (C06T, m.group(1)))
    if helper and n in MUTHELPERS:
        for m in re.finditer(r'(\w+) \*respErrorString', rets):
            out.append('//@ ensures [C06] inert.err: %s != nil ==> mutated == old(mutated)' % m.group(1))
        for m in re.finditer(r'(\w+) bool', rets):
            if m.group(1)=='wrongType':
                out.append('//@ ensures [C06] inert.wrongtype: wrongType ==> mutated == old(mutated)')
    if helper:
        out.append('//@ requires [C08,C16] locked: held')
        out.append('//@ modifies heap' + (' ghost.mutated ghost.bumped ghost.removedKey ghost.lookupAbsent' if n in MUTHELPERS else ' ghost.lookupAbsent') + ' ghost.now')
        pass
        out.append('//@ ensures stillheld: held')
        if n not in MUTHELPERS:
            out.append('//@ ensures [C10] absent.mono: old(lookupAbsent) ==> lookupAbsent')
            out.append('//@ loopinv [C10] absent.loop: old(lookupAbsent) ==> lookupAbsent')
        out.append('//@ ensures [C19] dirty.mono: old(dsc.ds.data.dirty) ==> dsc.ds.data.dirty')
        out.append('//@ ensures [C19] dirty.mut: (mutated && !old(mutated)) ==> dsc.ds.data.dirty')
        out.append('//@ loopinv [C19] dirty.loop.mono: old(dsc.ds.data.dirty) ==> dsc.ds.data.dirty')
        out.append('//@ loopinv [C19] dirty.loop.mut: (mutated && !old(mutated)) ==> dsc.ds.data.dirty')
        if n in MUTHELPERS:
            out.append('//@ ensures [C10] ver.mono: (old(bumped) ==> bumped) && (old(removedKey) ==> removedKey) && (old(lookupAbsent) ==> lookupAbsent)')
            if n not in NOVER:
                out.append('//@ ensures [C10] ver.mut: (mutated && !old(mutated)) ==> bumped || removedKey || lookupAbsent')
            out.append('//@ loopinv [C10] ver.loop: (old(bumped) ==> bumped) && (old(removedKey) ==> removedKey) && (old(lookupAbsent) ==> lookupAbsent)')
            if n not in NOVER:
                out.append('//@ loopinv [C10] ver.loop.mut: (mutated && !old(mutated)) ==> bumped || removedKey || lookupAbsent')
            out.append('//@ ensures [C19,C10] mut.mono: old(mutated) ==> mutated')
            out.append('//@ loopinv [C19,C10] mut.loop: old(mutated) ==> mutated')
    else:
        # either a plain command (lock free) or one replayed by EXEC (lock held, multiLock names it)
        out.append('//@ requires [C08,C16] unlocked: lockMode(dsc)')
        out.append('//@ ensures [C08,C16,C13] released: lockMode(dsc)')
        if n not in NOSTATE:
            out.append('//@ requires !mutated && !bumped && !removedKey')
            if n not in ('copy','move'):
                out.append('//@ ensures [C19] dirty: mutated ==> dsc.ds.data.dirty')
            out.append('//@ ensures [C10] versioned: mutated ==> bumped || removedKey || lookupAbsent')
            out.append('//@ loopinv [C10] versioned.loop: mutated ==> bumped || removedKey || lookupAbsent')
            out.append('//@ loopinv [C19] dirty.loop: mutated ==> dsc.ds.data.dirty')
    out.append('')
open(REPO+'/zz_contracts_storegen_verif.go','w').write("\n".join(out))
print(len(names),'methods')
