#!/bin/bash
# Runs every claimed check (quick tier) and prints one summary line each.
cd /verif
for p in $(python3 -c "import json;print(' '.join(c['property_id'] if 'property_id' in c else c['id'] for c in json.load(open('MANIFEST.json'))['checks']))" 2>/dev/null); do
  out=$(./check.sh $p 2>&1); rc=$?
  echo "$p rc=$rc $(echo "$out" | grep '^property' | tail -1)"
  echo "$out" | grep "^VIOLATION\|^UNDECIDED" | head -5 | cut -c1-200
done
