#!/usr/bin/env python3
# Generates the bounded refutation harnesses harness/C02|C04|C05_bounded_test.go
# from one template (each harness is overlaid alone, so the shared part is
# repeated in every file). The harnesses are NOT proofs; see their header.
import os

CORE = r'''//go:build verif

package redisemu

// Bounded refutation harness for %(PROP)s (%(WHAT)s). It is NOT a proof and is
// never counted as one: the %(PROP)s check runs it only to look for a concrete
// failing input when an obligation that was discharged on the pinned tree can
// no longer be generated or discharged (annotation unbound after a
// restructuring, engine limit), or in the thorough tier. It runs every
// sequence of up to %(DEPTH)d commands from a small command table through the
// in-process test client of the real emulator and compares every reply and
// the complete keyspace after every command with a direct model of the redis
// semantics (Go maps).

import (
	"fmt"
	"sort"
	"strconv"
	"strings"
	"testing"
)

type blVal struct {
	kind string // "string", "hash", "set"
	str  string
	h    map[string]string
	s    map[string]bool
}

type blModel map[string]*blVal

type blCmd struct {
	args  []string
	model func(m blModel) string // applies the command to the model, returns the expected reply
}

const blWrong = "err:WRONGTYPE"

func blNorm(v any, sortIt bool) string {
	switch x := v.(type) {
	case nil:
		return "nil"
	case int64:
		return "int:" + strconv.FormatInt(x, 10)
	case string:
		return "str:" + x
	case []any:
		var parts []string
		for _, e := range x {
			parts = append(parts, blNorm(e, false))
		}
		if sortIt {
			sort.Strings(parts)
		}
		return "[" + strings.Join(parts, " ") + "]"
	case map[string]any:
		var parts []string
		for k, e := range x {
			parts = append(parts, k+"="+blNorm(e, false))
		}
		sort.Strings(parts)
		return "{" + strings.Join(parts, " ") + "}"
	case map[any]any:
		var parts []string
		for k, e := range x {
			parts = append(parts, fmt.Sprint(k)+"="+blNorm(e, false))
		}
		sort.Strings(parts)
		return "{" + strings.Join(parts, " ") + "}"
	}
	return fmt.Sprintf("%%T:%%v", v, v)
}

func blReply(out respValue, sortIt bool) string {
	if e, isErr := out.data.(respErrorString); isErr {
		s := string(e)
		if strings.HasPrefix(s, "WRONGTYPE") {
			return blWrong
		}
		return "err:" + strings.SplitN(s, " ", 2)[0]
	}
	return blNorm(out.toNative(), sortIt)
}

func blSorted(m map[string]bool) string {
	var ks []string
	for k := range m {
		ks = append(ks, "str:"+k)
	}
	sort.Strings(ks)
	return "[" + strings.Join(ks, " ") + "]"
}

func blHash(h map[string]string) string {
	var ks []string
	for k, v := range h {
		ks = append(ks, k+"=str:"+v)
	}
	sort.Strings(ks)
	return "{" + strings.Join(ks, " ") + "}"
}

// state of one key as the emulator reports it
func blObserve(ts RedisTestClient, k string) string {
	typ := blReply(ts.ProcessCommand("type", k), false)
	switch typ {
	case "str:none":
		return "none"
	case "str:string":
		return "string " + blReply(ts.ProcessCommand("get", k), false)
	case "str:set":
		return "set " + blReply(ts.ProcessCommand("smembers", k), true)
	case "str:hash":
		out := ts.ProcessCommand("hgetall", k)
		nat := out.toNative()
		// RESP2 shape: flat array field,value,...
		if arr, ok := nat.([]any); ok {
			var ks []string
			for i := 0; i+1 < len(arr); i += 2 {
				ks = append(ks, blNorm(arr[i], false)+"="+blNorm(arr[i+1], false))
			}
			sort.Strings(ks)
			return "hash {" + strings.Join(ks, " ") + "}"
		}
		return "hash " + blNorm(nat, false)
	}
	return typ
}

func blExpect(m blModel, k string) string {
	v := m[k]
	if v == nil {
		return "none"
	}
	switch v.kind {
	case "string":
		return "string str:" + v.str
	case "set":
		return "set " + blSorted(v.s)
	case "hash":
		return "hash " + blHash(v.h)
	}
	return "?"
}

func blRun(t *testing.T, prop string, keys []string, cmds []blCmd, sortReply func(args []string) bool, depth int) {
	checked := 0
	idx := make([]int, depth)
	for d := 1; d <= depth; d++ {
		total := 1
		for i := 0; i < d; i++ {
			total *= len(cmds)
		}
		for code := 0; code < total; code++ {
			c := code
			for i := 0; i < d; i++ {
				idx[i] = c %% len(cmds)
				c /= len(cmds)
			}
			ts := NewRedisTestClient(t)
			m := blModel{}
			var history []string
			for i := 0; i < d; i++ {
				cmd := cmds[idx[i]]
				history = append(history, strings.Join(cmd.args, " "))
				var got string
				func() {
					defer func() {
						if r := recover(); r != nil {
							got = fmt.Sprintf("panic: %%v", r)
						}
					}()
					anyArgs := make([]any, 0, len(cmd.args)-1)
					for _, a := range cmd.args[1:] {
						anyArgs = append(anyArgs, a)
					}
					got = blReply(ts.ProcessCommand(cmd.args[0], anyArgs...), sortReply(cmd.args))
				}()
				want := cmd.model(m)
				msg := ""
				if got != want {
					msg = fmt.Sprintf("reply %%s, expected %%s", got, want)
				} else {
					for _, k := range keys {
						if o, e := blObserve(ts, k), blExpect(m, k); o != e {
							msg = fmt.Sprintf("key %%s is %%s afterwards, expected %%s", k, o, e)
							break
						}
					}
				}
				if msg != "" {
					fmt.Printf("BOUNDED-REFUTATION property=%%s commands=%%q : %%s\n", prop, history, msg)
					ts.Close()
					t.FailNow()
				}
			}
			ts.Close()
			checked++
		}
	}
	fmt.Printf("BOUNDED-OK property=%%s sequences=%%d\n", prop, checked)
}
'''

C05 = r'''
func bl05set(m blModel, k string) (map[string]bool, bool) {
	v := m[k]
	if v == nil {
		return map[string]bool{}, true
	}
	if v.kind != "set" {
		return nil, false
	}
	return v.s, true
}

func bl05put(m blModel, k string, s map[string]bool) {
	if len(s) == 0 {
		delete(m, k)
	} else {
		m[k] = &blVal{kind: "set", s: s}
	}
}

func bl05alg(op string, a, b map[string]bool) map[string]bool {
	r := map[string]bool{}
	switch op {
	case "inter":
		for x := range a {
			if b[x] {
				r[x] = true
			}
		}
	case "union":
		for x := range a {
			r[x] = true
		}
		for x := range b {
			r[x] = true
		}
	case "diff":
		for x := range a {
			if !b[x] {
				r[x] = true
			}
		}
	}
	return r
}

func bl05cmds() []blCmd {
	var cmds []blCmd
	for _, k := range []string{"a", "b"} {
		for _, x := range []string{"x", "y"} {
			k, x := k, x
			cmds = append(cmds, blCmd{[]string{"sadd", k, x}, func(m blModel) string {
				s, ok := bl05set(m, k)
				if !ok {
					return blWrong
				}
				n := 0
				if !s[x] {
					n = 1
				}
				ns := map[string]bool{x: true}
				for e := range s {
					ns[e] = true
				}
				bl05put(m, k, ns)
				return fmt.Sprintf("int:%%d", n)
			}})
			cmds = append(cmds, blCmd{[]string{"srem", k, x}, func(m blModel) string {
				s, ok := bl05set(m, k)
				if !ok {
					return blWrong
				}
				n := 0
				ns := map[string]bool{}
				for e := range s {
					if e == x {
						n = 1
					} else {
						ns[e] = true
					}
				}
				if m[k] != nil {
					bl05put(m, k, ns)
				}
				return fmt.Sprintf("int:%%d", n)
			}})
			cmds = append(cmds, blCmd{[]string{"sismember", k, x}, func(m blModel) string {
				s, ok := bl05set(m, k)
				if !ok {
					return blWrong
				}
				if s[x] {
					return "int:1"
				}
				return "int:0"
			}})
		}
		k2 := k
		cmds = append(cmds, blCmd{[]string{"scard", k2}, func(m blModel) string {
			s, ok := bl05set(m, k2)
			if !ok {
				return blWrong
			}
			return fmt.Sprintf("int:%%d", len(s))
		}})
	}
	for _, mv := range [][3]string{{"a", "b", "x"}, {"b", "a", "y"}, {"a", "a", "x"}} {
		mv := mv
		cmds = append(cmds, blCmd{[]string{"smove", mv[0], mv[1], mv[2]}, func(m blModel) string {
			if m[mv[0]] == nil {
				return "int:0" // redis answers 0 for a missing source before looking at the destination's type
			}
			src, ok1 := bl05set(m, mv[0])
			dst, ok2 := bl05set(m, mv[1])
			if !ok1 || !ok2 {
				return blWrong
			}
			if !src[mv[2]] {
				return "int:0"
			}
			if mv[0] == mv[1] {
				return "int:1"
			}
			ns := map[string]bool{}
			for e := range src {
				if e != mv[2] {
					ns[e] = true
				}
			}
			nd := map[string]bool{mv[2]: true}
			for e := range dst {
				nd[e] = true
			}
			bl05put(m, mv[0], ns)
			bl05put(m, mv[1], nd)
			return "int:1"
		}})
	}
	for _, op := range []string{"inter", "union", "diff"} {
		op := op
		cmds = append(cmds, blCmd{[]string{"s" + op, "a", "b"}, func(m blModel) string {
			a, ok1 := bl05set(m, "a")
			b, ok2 := bl05set(m, "b")
			// (redis 7 treats a missing operand of SINTER as an empty set and still type-checks the operands after it)
			if !ok1 || !ok2 {
				return blWrong
			}
			return blSorted(bl05alg(op, a, b))
		}})
		for _, dest := range []string{"d", "a", "b"} {
			dest := dest
			cmds = append(cmds, blCmd{[]string{"s" + op + "store", dest, "a", "b"}, func(m blModel) string {
				a, ok1 := bl05set(m, "a")
				b, ok2 := bl05set(m, "b")
				if !ok1 || !ok2 {
					return blWrong
				}
				r := bl05alg(op, a, b)
				bl05put(m, dest, r)
				return fmt.Sprintf("int:%%d", len(r))
			}})
		}
	}
	cmds = append(cmds, blCmd{[]string{"set", "b", "v"}, func(m blModel) string {
		m["b"] = &blVal{kind: "string", str: "v"}
		return "str:OK"
	}})
	cmds = append(cmds, blCmd{[]string{"del", "a"}, func(m blModel) string {
		n := 0
		if m["a"] != nil {
			n = 1
		}
		delete(m, "a")
		return fmt.Sprintf("int:%%d", n)
	}})
	return cmds
}

func TestGovcBoundedC05(t *testing.T) {
	blRun(t, "C05", []string{"a", "b", "d"}, bl05cmds(), func(args []string) bool {
		return args[0] == "sinter" || args[0] == "sunion" || args[0] == "sdiff"
	}, %(DEPTH)d)
}
'''

C04 = r'''
func bl04hash(m blModel, k string) (map[string]string, bool) {
	v := m[k]
	if v == nil {
		return map[string]string{}, true
	}
	if v.kind != "hash" {
		return nil, false
	}
	return v.h, true
}

func bl04put(m blModel, k string, h map[string]string) {
	if len(h) == 0 {
		delete(m, k)
	} else {
		m[k] = &blVal{kind: "hash", h: h}
	}
}

func bl04copy(h map[string]string) map[string]string {
	n := map[string]string{}
	for k, v := range h {
		n[k] = v
	}
	return n
}

func bl04cmds() []blCmd {
	var cmds []blCmd
	k := "h"
	for _, f := range []string{"f", "g"} {
		f := f
		for _, v := range []string{"5", "x", "9223372036854775807"} {
			v := v
			cmds = append(cmds, blCmd{[]string{"hset", k, f, v}, func(m blModel) string {
				h, ok := bl04hash(m, k)
				if !ok {
					return blWrong
				}
				n := 0
				if _, has := h[f]; !has {
					n = 1
				}
				nh := bl04copy(h)
				nh[f] = v
				bl04put(m, k, nh)
				return fmt.Sprintf("int:%%d", n)
			}})
		}
		cmds = append(cmds, blCmd{[]string{"hsetnx", k, f, "n"}, func(m blModel) string {
			h, ok := bl04hash(m, k)
			if !ok {
				return blWrong
			}
			if _, has := h[f]; has {
				return "int:0"
			}
			nh := bl04copy(h)
			nh[f] = "n"
			bl04put(m, k, nh)
			return "int:1"
		}})
		cmds = append(cmds, blCmd{[]string{"hdel", k, f}, func(m blModel) string {
			h, ok := bl04hash(m, k)
			if !ok {
				return blWrong
			}
			if _, has := h[f]; !has {
				return "int:0"
			}
			nh := bl04copy(h)
			delete(nh, f)
			bl04put(m, k, nh)
			return "int:1"
		}})
		cmds = append(cmds, blCmd{[]string{"hget", k, f}, func(m blModel) string {
			h, ok := bl04hash(m, k)
			if !ok {
				return blWrong
			}
			if v, has := h[f]; has {
				return "str:" + v
			}
			return "nil"
		}})
		cmds = append(cmds, blCmd{[]string{"hexists", k, f}, func(m blModel) string {
			h, ok := bl04hash(m, k)
			if !ok {
				return blWrong
			}
			if _, has := h[f]; has {
				return "int:1"
			}
			return "int:0"
		}})
		for _, d := range []string{"3", "-7", "9223372036854775807", "-9223372036854775808"} {
			d := d
			cmds = append(cmds, blCmd{[]string{"hincrby", k, f, d}, func(m blModel) string {
				h, ok := bl04hash(m, k)
				if !ok {
					return blWrong
				}
				cur := int64(0)
				if v, has := h[f]; has {
					p, err := strconv.ParseInt(v, 10, 64)
					if err != nil {
						return "err:ERR"
					}
					cur = p
				}
				dv, _ := strconv.ParseInt(d, 10, 64)
				sum := cur + dv
				if (dv > 0 && sum < cur) || (dv < 0 && sum > cur) {
					return "err:ERR"
				}
				nh := bl04copy(h)
				nh[f] = strconv.FormatInt(sum, 10)
				bl04put(m, k, nh)
				return fmt.Sprintf("int:%%d", sum)
			}})
		}
	}
	cmds = append(cmds, blCmd{[]string{"hlen", k}, func(m blModel) string {
		h, ok := bl04hash(m, k)
		if !ok {
			return blWrong
		}
		return fmt.Sprintf("int:%%d", len(h))
	}})
	cmds = append(cmds, blCmd{[]string{"del", k}, func(m blModel) string {
		n := 0
		if m[k] != nil {
			n = 1
		}
		delete(m, k)
		return fmt.Sprintf("int:%%d", n)
	}})
	cmds = append(cmds, blCmd{[]string{"set", k, "v"}, func(m blModel) string {
		m[k] = &blVal{kind: "string", str: "v"}
		return "str:OK"
	}})
	return cmds
}

func TestGovcBoundedC04(t *testing.T) {
	blRun(t, "C04", []string{"h"}, bl04cmds(), func(args []string) bool { return false }, %(DEPTH)d)
}
'''

C02 = r'''
func bl02str(m blModel, k string) (string, bool, bool) { // value, exists, isString
	v := m[k]
	if v == nil {
		return "", false, true
	}
	if v.kind != "string" {
		return "", true, false
	}
	return v.str, true, true
}

func bl02range(s string, start, end int) string {
	n := len(s)
	if start < 0 && end < 0 && start > end {
		return ""
	}
	if start < 0 {
		start = n + start
	}
	if end < 0 {
		end = n + end
	}
	if start < 0 {
		start = 0
	}
	if end < 0 {
		end = 0
	}
	if end >= n {
		end = n - 1
	}
	if n == 0 || start > end {
		return ""
	}
	return s[start : end+1]
}

func bl02cmds() []blCmd {
	var cmds []blCmd
	k := "k"
	set := func(m blModel, key, v string) { m[key] = &blVal{kind: "string", str: v} }
	for _, v := range []string{"hello", "10", "9223372036854775807", "-9223372036854775808"} {
		v := v
		cmds = append(cmds, blCmd{[]string{"set", k, v}, func(m blModel) string { set(m, k, v); return "str:OK" }})
	}
	cmds = append(cmds, blCmd{[]string{"set", k, "n", "nx"}, func(m blModel) string {
		if m[k] != nil {
			return "nil"
		}
		set(m, k, "n")
		return "str:OK"
	}})
	cmds = append(cmds, blCmd{[]string{"set", k, "x", "xx"}, func(m blModel) string {
		if m[k] == nil {
			return "nil"
		}
		set(m, k, "x")
		return "str:OK"
	}})
	cmds = append(cmds, blCmd{[]string{"set", k, "g", "get"}, func(m blModel) string {
		old, exists, isStr := bl02str(m, k)
		if !isStr {
			return blWrong
		}
		set(m, k, "g")
		if !exists {
			return "nil"
		}
		return "str:" + old
	}})
	cmds = append(cmds, blCmd{[]string{"setnx", k, "s"}, func(m blModel) string {
		if m[k] != nil {
			return "int:0"
		}
		set(m, k, "s")
		return "int:1"
	}})
	cmds = append(cmds, blCmd{[]string{"get", k}, func(m blModel) string {
		v, exists, isStr := bl02str(m, k)
		if !isStr {
			return blWrong
		}
		if !exists {
			return "nil"
		}
		return "str:" + v
	}})
	cmds = append(cmds, blCmd{[]string{"getdel", k}, func(m blModel) string {
		v, exists, isStr := bl02str(m, k)
		if !isStr {
			return blWrong
		}
		if !exists {
			return "nil"
		}
		delete(m, k)
		return "str:" + v
	}})
	cmds = append(cmds, blCmd{[]string{"getset", k, "q"}, func(m blModel) string {
		v, exists, isStr := bl02str(m, k)
		if !isStr {
			return blWrong
		}
		set(m, k, "q")
		if !exists {
			return "nil"
		}
		return "str:" + v
	}})
	cmds = append(cmds, blCmd{[]string{"append", k, "ab"}, func(m blModel) string {
		v, _, isStr := bl02str(m, k)
		if !isStr {
			return blWrong
		}
		set(m, k, v+"ab")
		return fmt.Sprintf("int:%%d", len(v)+2)
	}})
	cmds = append(cmds, blCmd{[]string{"strlen", k}, func(m blModel) string {
		v, _, isStr := bl02str(m, k)
		if !isStr {
			return blWrong
		}
		return fmt.Sprintf("int:%%d", len(v))
	}})
	for _, r := range [][2]int{{0, -1}, {1, 2}, {-3, -2}, {0, -100}, {-100, 1}, {2, 1}, {5, 100}} {
		r := r
		cmds = append(cmds, blCmd{[]string{"getrange", k, strconv.Itoa(r[0]), strconv.Itoa(r[1])}, func(m blModel) string {
			v, _, isStr := bl02str(m, k)
			if !isStr {
				return blWrong
			}
			return "str:" + bl02range(v, r[0], r[1])
		}})
	}
	for _, o := range []int{0, 2, 7} {
		o := o
		cmds = append(cmds, blCmd{[]string{"setrange", k, strconv.Itoa(o), "zz"}, func(m blModel) string {
			v, _, isStr := bl02str(m, k)
			if !isStr {
				return blWrong
			}
			b := []byte(v)
			for len(b) < o+2 {
				b = append(b, 0)
			}
			copy(b[o:], "zz")
			set(m, k, string(b))
			return fmt.Sprintf("int:%%d", len(b))
		}})
	}
	for _, d := range []string{"1", "-1", "9223372036854775807", "-9223372036854775808"} {
		d := d
		cmds = append(cmds, blCmd{[]string{"incrby", k, d}, func(m blModel) string {
			v, exists, isStr := bl02str(m, k)
			if !isStr {
				return blWrong
			}
			cur := int64(0)
			if exists {
				p, err := strconv.ParseInt(v, 10, 64)
				if err != nil {
					return "err:ERR"
				}
				cur = p
			}
			dv, _ := strconv.ParseInt(d, 10, 64)
			sum := cur + dv
			if (dv > 0 && sum < cur) || (dv < 0 && sum > cur) {
				return "err:ERR"
			}
			set(m, k, strconv.FormatInt(sum, 10))
			return fmt.Sprintf("int:%%d", sum)
		}})
	}
	cmds = append(cmds, blCmd{[]string{"msetnx", k, "m1", "j", "m2"}, func(m blModel) string {
		if m[k] != nil || m["j"] != nil {
			return "int:0"
		}
		set(m, k, "m1")
		set(m, "j", "m2")
		return "int:1"
	}})
	cmds = append(cmds, blCmd{[]string{"mset", "j", "w"}, func(m blModel) string { set(m, "j", "w"); return "str:OK" }})
	cmds = append(cmds, blCmd{[]string{"sadd", k, "member"}, func(m blModel) string {
		v := m[k]
		if v != nil && v.kind != "set" {
			return blWrong
		}
		n := 1
		if v != nil && v.s["member"] {
			n = 0
		}
		m[k] = &blVal{kind: "set", s: map[string]bool{"member": true}}
		return fmt.Sprintf("int:%%d", n)
	}})
	cmds = append(cmds, blCmd{[]string{"del", k}, func(m blModel) string {
		n := 0
		if m[k] != nil {
			n = 1
		}
		delete(m, k)
		return fmt.Sprintf("int:%%d", n)
	}})
	return cmds
}

func TestGovcBoundedC02(t *testing.T) {
	blRun(t, "C02", []string{"k", "j"}, bl02cmds(), func(args []string) bool { return false }, %(DEPTH)d)
}
'''


C06 = r'''
func bl06clone(v *blVal) *blVal {
	if v == nil {
		return nil
	}
	c := &blVal{kind: v.kind, str: v.str}
	if v.h != nil {
		c.h = map[string]string{}
		for k, x := range v.h {
			c.h[k] = x
		}
	}
	if v.s != nil {
		c.s = map[string]bool{}
		for k := range v.s {
			c.s[k] = true
		}
	}
	return c
}

func bl06cmds() []blCmd {
	var cmds []blCmd
	set := func(m blModel, key, v string) { m[key] = &blVal{kind: "string", str: v} }
	keys := []string{"a", "b"}
	cmds = append(cmds, blCmd{[]string{"set", "a", "AAAA"}, func(m blModel) string { set(m, "a", "AAAA"); return "str:OK" }})
	cmds = append(cmds, blCmd{[]string{"hset", "a", "f", "1"}, func(m blModel) string {
		v := m["a"]
		if v != nil && v.kind != "hash" {
			return blWrong
		}
		if v == nil {
			v = &blVal{kind: "hash", h: map[string]string{}}
			m["a"] = v
		}
		n := 1
		if _, ok := v.h["f"]; ok {
			n = 0
		}
		v.h["f"] = "1"
		return fmt.Sprintf("int:%%d", n)
	}})
	cmds = append(cmds, blCmd{[]string{"sadd", "a", "x"}, func(m blModel) string {
		v := m["a"]
		if v != nil && v.kind != "set" {
			return blWrong
		}
		if v == nil {
			v = &blVal{kind: "set", s: map[string]bool{}}
			m["a"] = v
		}
		n := 1
		if v.s["x"] {
			n = 0
		}
		v.s["x"] = true
		return fmt.Sprintf("int:%%d", n)
	}})
	for _, k := range keys {
		k := k
		// in-place writers: they must change exactly the key they name
		cmds = append(cmds, blCmd{[]string{"setbit", k, "6", "1"}, func(m blModel) string {
			v := m[k]
			if v != nil && v.kind != "string" {
				return blWrong
			}
			b := []byte{}
			if v != nil {
				b = []byte(v.str)
			}
			if len(b) == 0 {
				b = []byte{0}
			}
			old := (b[0] >> 1) & 1
			b[0] |= 2
			set(m, k, string(b))
			return fmt.Sprintf("int:%%d", old)
		}})
		cmds = append(cmds, blCmd{[]string{"append", k, "z"}, func(m blModel) string {
			v := m[k]
			if v != nil && v.kind != "string" {
				return blWrong
			}
			cur := ""
			if v != nil {
				cur = v.str
			}
			set(m, k, cur+"z")
			return fmt.Sprintf("int:%%d", len(cur)+1)
		}})
		cmds = append(cmds, blCmd{[]string{"hset", k, "g", "2"}, func(m blModel) string {
			v := m[k]
			if v != nil && v.kind != "hash" {
				return blWrong
			}
			if v == nil {
				v = &blVal{kind: "hash", h: map[string]string{}}
				m[k] = v
			}
			n := 1
			if _, ok := v.h["g"]; ok {
				n = 0
			}
			v.h["g"] = "2"
			return fmt.Sprintf("int:%%d", n)
		}})
		cmds = append(cmds, blCmd{[]string{"srem", k, "x"}, func(m blModel) string {
			v := m[k]
			if v == nil {
				return "int:0"
			}
			if v.kind != "set" {
				return blWrong
			}
			n := 0
			if v.s["x"] {
				n = 1
				delete(v.s, "x")
			}
			if len(v.s) == 0 {
				delete(m, k)
			}
			return fmt.Sprintf("int:%%d", n)
		}})
		cmds = append(cmds, blCmd{[]string{"del", k}, func(m blModel) string {
			n := 0
			if m[k] != nil {
				n = 1
			}
			delete(m, k)
			return fmt.Sprintf("int:%%d", n)
		}})
		cmds = append(cmds, blCmd{[]string{"exists", k}, func(m blModel) string {
			if m[k] != nil {
				return "int:1"
			}
			return "int:0"
		}})
	}
	cmds = append(cmds, blCmd{[]string{"copy", "a", "b"}, func(m blModel) string {
		if m["a"] == nil || m["b"] != nil {
			return "int:0"
		}
		m["b"] = bl06clone(m["a"])
		return "int:1"
	}})
	cmds = append(cmds, blCmd{[]string{"copy", "a", "b", "replace"}, func(m blModel) string {
		if m["a"] == nil {
			return "int:0"
		}
		m["b"] = bl06clone(m["a"])
		return "int:1"
	}})
	cmds = append(cmds, blCmd{[]string{"rename", "a", "b"}, func(m blModel) string {
		if m["a"] == nil {
			return "err:ERR"
		}
		m["b"] = m["a"]
		delete(m, "a")
		return "str:OK"
	}})
	cmds = append(cmds, blCmd{[]string{"renamenx", "b", "a"}, func(m blModel) string {
		if m["b"] == nil {
			return "err:ERR"
		}
		if m["a"] != nil {
			return "int:0"
		}
		m["a"] = m["b"]
		delete(m, "b")
		return "int:1"
	}})
	return cmds
}

func TestGovcBoundedC06(t *testing.T) {
	blRun(t, "C06", []string{"a", "b"}, bl06cmds(), func(args []string) bool { return false }, %(DEPTH)d)
}
'''

def main():
    out = os.path.join(os.path.dirname(os.path.abspath(__file__)), '..', 'harness')
    for prop, what, body, depth in [("C05", "sets and set algebra", C05, 3), ("C04", "hashes", C04, 2), ("C02", "strings and counters", C02, 2), ("C06", "keyspace commands: COPY/RENAME/DEL with in-place writers", C06, 3)]:
        d = dict(PROP=prop, WHAT=what, DEPTH=depth)
        text = CORE % d + body % d
        open(os.path.join(out, prop + '_bounded_test.go'), 'w').write(text)
        print('wrote', prop)

main()
