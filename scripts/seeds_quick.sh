#!/bin/bash
# Detection-only re-run of kept seeds (no demo / baseline re-run: the "SEED facts" line of the last full
# evaluation by seed_eval.sh is carried over). usage: seeds_quick.sh <seed-id>...   (parallel-safe)
cd /verif
for id in "$@"; do
  prop=${id%%-*}; d=seeded/$id
  facts=$(grep -h "^SEED facts" $d/result.txt 2>/dev/null | head -1)
  [ -z "$facts" ] && facts=$(git show HEAD:$d/result.txt 2>/dev/null | grep "^SEED facts" | head -1)
  if ! (cd /repo && patch -p1 -s --dry-run < /verif/$d/patch.diff >/dev/null 2>&1); then
    echo "SEED patch does not apply to current /repo" > $d/result.txt; echo "$id does-not-apply"; continue
  fi
  out=$(scripts/mutant.sh /verif/$d/patch.diff -- check -no-evidence $prop 2>&1 | grep "VIOLATION\|^property\|govc:\|COMPILE" | cut -c1-330)
  { echo "${facts%% (carried*} (carried over from the last full evaluation; this run: detection only)"; echo "$out"; } > $d/result.txt
  echo "$id violations=$(echo "$out" | grep -c '^VIOLATION')"
done
