#!/bin/bash
# usage: mutant.sh <patch.diff|-e 'sed-expr' file> -- <govc args...>
# Runs govc against a scratch copy of /repo with a change applied; removes the copy.
set -e
export GOFLAGS=-mod=mod GOPROXY=off GOSUMDB=off GOTOOLCHAIN=local
D=$(mktemp -d /var/tmp/verif-scratch.XXXXXX)
trap 'rm -rf "$D"' EXIT
rsync -a --exclude .git /repo/ "$D/"
if [ "$1" = "-e" ]; then
  sed -i "$2" "$D/$3"; shift 3
elif [ "$1" = "-p" ]; then
  perl -0pi -e "$2" "$D/$3"; shift 3
else
  (cd "$D" && patch -p1 -s < "$1"); shift
fi
[ "$1" = "--" ] && shift
(cd "$D" && go build ./... ) || { echo "MUTANT DOES NOT COMPILE"; exit 3; }
SUB="$1"; shift
/verif/bin/govc "$SUB" -repo "$D" "$@"
