#!/bin/bash
# Evaluates every kept seed against the check of its property; prints one line per seed.
cd /verif
for d in seeded/*/; do
  id=$(basename $d); prop=${id%%-*}
  [ -f $d/patch.diff ] || continue
  out=$(scripts/seed_eval.sh /verif/$d $prop 2>&1)
  v=$(echo "$out" | grep -c "^VIOLATION")
  b=$(echo "$out" | grep -c "^BOUNDED-REFUTATION")
  echo "$id violations=$v bounded=$b $(echo "$out" | grep '^property' | tail -1 | cut -c1-150)"
done
