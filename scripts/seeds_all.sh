#!/bin/bash
# Evaluates every kept seed against the check of its property; prints one line per seed
# and records the outcome in seeded/<id>/result.txt
cd /verif
for d in seeded/*/; do
  id=$(basename $d); prop=${id%%-*}
  [ -f $d/patch.diff ] || continue
  out=$(scripts/seed_eval.sh /verif/$d $prop 2>&1)
  echo "$out" > $d/result.txt
  v=$(echo "$out" | grep -c "^VIOLATION")
  echo "$id violations=$v $(echo "$out" | grep '^property' | tail -1 | cut -c1-150)"
done
