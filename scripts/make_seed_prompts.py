#!/usr/bin/env python3
"""Writes the prompt files for a batch of outside seed agents: make_seed_prompts.py N C01 C02 ...
(worktrees /tmp/seedN-Cxx must exist; nothing under /verif is shown to the agents)."""
import json,glob,sys
N=sys.argv[1]; props={}
for l in open('/verif/properties.jsonl'):
    d=json.loads(l); props[d['id']]=d
T='''You are testing a verification project from the outside. Work ONLY inside the git worktree WT (a scratch copy of the Go repository jimsnab/go-redisemu, an in-process Redis emulator). Do not read or write anything under /verif or /repo. There is no network: prefix every go command with: export GOFLAGS=-mod=mod GOPROXY=off GOSUMDB=off GOTOOLCHAIN=local
IMPORTANT: do NOT use `git stash` (the stash is shared with other worktrees); to test without your change use `git diff > WT-out/x.diff; git apply -R WT-out/x.diff; ...; git apply WT-out/x.diff`. Other agents run in sibling worktrees at the same time: tests that open fixed TCP ports may collide; re-run once before concluding a baseline test failed because of your change. Note for tests: NewRedisTestClient(t) starts a separate emulator each time; a second connection to the SAME emulator is ts.AdditionalClient().

The repository is supposed to satisfy this property (PID: TITLE):

STATEMENT

Quantified over: QUANT

Your job: make ONE small, realistic source change (the kind a maintainer could plausibly commit: an optimisation, a refactor, an off-by-one, a dropped call, a reordered statement, a wrong constant, a condition that is almost right, a helper swapped for a similar one, a rewritten loop) to non-test .go files in WT that BREAKS this property, such that
 - the package still compiles (go build ./...),
 - the existing baseline tests still pass: go test -vet=off -count=1 -timeout 10m -run "$(cat WT/.baseline_regex)" .   (the regex file is provided),
 - the breakage needs something specific to show up (a particular input, option combination, ordering, interleaving or state), i.e. it is not caught by casually running a few commands.
Earlier testers already made these changes for the same property; yours must be in a DIFFERENT function from all of them and be a different kind of mistake:
EARLIER
Pick a part of the code those earlier changes did not touch at all: a command of the family nobody has touched yet, the command handler layer (fn* functions) rather than the store layer or vice versa, a helper, an error path, an option, a reply conversion.
Then write a Go test file demo_test.go (package redisemu, test function names starting with TestSeedDemo) that FAILS with your change and PASSES without it (verify both). Prefer calling the package's internal functions directly (it is an in-package test) over sockets; for concurrency properties a deterministic demo that forces the interleaving by calling the internal steps in order is best.

Deliver into WT-out/ :
 - patch.diff  : `git diff` of your change against the worktree HEAD (only non-test .go files; do NOT include demo_test.go),
 - demo_test.go: the demo test,
 - meta.json   : {"property": "PID", "summary": "...what you changed...", "needs": "...what it takes to manifest...", "files_changed": [...], "verified": {"compiles": true/false, "baseline_passes_with_change": true/false, "demo_fails_with_change": true/false, "demo_passes_without_change": true/false}}
Leave the worktree with your change applied. Do not commit. Keep the change minimal (a few lines). Report a one-paragraph summary when done; if you notice behaviour that already violates the property on the unmodified code, list it briefly too (with the exact commands/inputs).
'''
for p in sys.argv[2:]:
    d=props[p]; wt='/tmp/seed%s-%s'%(N,p)
    earlier=[]
    for m in sorted(glob.glob('/verif/seeded/%s-*/meta.json'%p)):
        j=json.load(open(m)); earlier.append(' - "'+str(j.get('summary',''))[:260].replace('"',"'")+'"')
    q=d.get('quantifier','')
    if isinstance(q,dict): q=q.get('text','')
    s=T.replace('WT',wt).replace('PID',p).replace('TITLE',d.get('title','')).replace('STATEMENT',d.get('statement','')).replace('QUANT',str(q)).replace('EARLIER','\n'.join(earlier))
    open('/tmp/prompt%s-%s.txt'%(N,p),'w').write(s)
    print('/tmp/prompt%s-%s.txt'%(N,p), len(earlier))
