//go:build verif

package redisemu

// Bounded refutation harness for C05 (sets and set algebra). It is NOT a proof and is
// never counted as one: the C05 check runs it only to look for a concrete
// failing input when an obligation that was discharged on the pinned tree can
// no longer be generated or discharged (annotation unbound after a
// restructuring, engine limit), or in the thorough tier. It runs every
// sequence of up to 3 commands from a small command table through the
// in-process test client of the real emulator and compares every reply and
// the complete keyspace after every command with a direct model of the redis
// semantics (Go maps).

import (
	"fmt"
	"sort"
	"strconv"
	"strings"
	"testing"
)

type blVal struct {
	kind string // "string", "hash", "set"
	str  string
	h    map[string]string
	s    map[string]bool
}

type blModel map[string]*blVal

type blCmd struct {
	args  []string
	model func(m blModel) string // applies the command to the model, returns the expected reply
}

const blWrong = "err:WRONGTYPE"

func blNorm(v any, sortIt bool) string {
	switch x := v.(type) {
	case nil:
		return "nil"
	case int64:
		return "int:" + strconv.FormatInt(x, 10)
	case string:
		return "str:" + x
	case []any:
		var parts []string
		for _, e := range x {
			parts = append(parts, blNorm(e, false))
		}
		if sortIt {
			sort.Strings(parts)
		}
		return "[" + strings.Join(parts, " ") + "]"
	case map[string]any:
		var parts []string
		for k, e := range x {
			parts = append(parts, k+"="+blNorm(e, false))
		}
		sort.Strings(parts)
		return "{" + strings.Join(parts, " ") + "}"
	case map[any]any:
		var parts []string
		for k, e := range x {
			parts = append(parts, fmt.Sprint(k)+"="+blNorm(e, false))
		}
		sort.Strings(parts)
		return "{" + strings.Join(parts, " ") + "}"
	}
	return fmt.Sprintf("%T:%v", v, v)
}

func blReply(out respValue, sortIt bool) string {
	if e, isErr := out.data.(respErrorString); isErr {
		s := string(e)
		if strings.HasPrefix(s, "WRONGTYPE") {
			return blWrong
		}
		return "err:" + strings.SplitN(s, " ", 2)[0]
	}
	return blNorm(out.toNative(), sortIt)
}

func blSorted(m map[string]bool) string {
	var ks []string
	for k := range m {
		ks = append(ks, "str:"+k)
	}
	sort.Strings(ks)
	return "[" + strings.Join(ks, " ") + "]"
}

func blHash(h map[string]string) string {
	var ks []string
	for k, v := range h {
		ks = append(ks, k+"=str:"+v)
	}
	sort.Strings(ks)
	return "{" + strings.Join(ks, " ") + "}"
}

// state of one key as the emulator reports it
func blObserve(ts RedisTestClient, k string) string {
	typ := blReply(ts.ProcessCommand("type", k), false)
	switch typ {
	case "str:none":
		return "none"
	case "str:string":
		return "string " + blReply(ts.ProcessCommand("get", k), false)
	case "str:set":
		return "set " + blReply(ts.ProcessCommand("smembers", k), true)
	case "str:hash":
		out := ts.ProcessCommand("hgetall", k)
		nat := out.toNative()
		// RESP2 shape: flat array field,value,...
		if arr, ok := nat.([]any); ok {
			var ks []string
			for i := 0; i+1 < len(arr); i += 2 {
				ks = append(ks, blNorm(arr[i], false)+"="+blNorm(arr[i+1], false))
			}
			sort.Strings(ks)
			return "hash {" + strings.Join(ks, " ") + "}"
		}
		return "hash " + blNorm(nat, false)
	}
	return typ
}

func blExpect(m blModel, k string) string {
	v := m[k]
	if v == nil {
		return "none"
	}
	switch v.kind {
	case "string":
		return "string str:" + v.str
	case "set":
		return "set " + blSorted(v.s)
	case "hash":
		return "hash " + blHash(v.h)
	}
	return "?"
}

func blRun(t *testing.T, prop string, keys []string, cmds []blCmd, sortReply func(args []string) bool, depth int) {
	checked := 0
	idx := make([]int, depth)
	for d := 1; d <= depth; d++ {
		total := 1
		for i := 0; i < d; i++ {
			total *= len(cmds)
		}
		for code := 0; code < total; code++ {
			c := code
			for i := 0; i < d; i++ {
				idx[i] = c % len(cmds)
				c /= len(cmds)
			}
			ts := NewRedisTestClient(t)
			m := blModel{}
			var history []string
			for i := 0; i < d; i++ {
				cmd := cmds[idx[i]]
				history = append(history, strings.Join(cmd.args, " "))
				var got string
				func() {
					defer func() {
						if r := recover(); r != nil {
							got = fmt.Sprintf("panic: %v", r)
						}
					}()
					anyArgs := make([]any, 0, len(cmd.args)-1)
					for _, a := range cmd.args[1:] {
						anyArgs = append(anyArgs, a)
					}
					got = blReply(ts.ProcessCommand(cmd.args[0], anyArgs...), sortReply(cmd.args))
				}()
				want := cmd.model(m)
				msg := ""
				if got != want {
					msg = fmt.Sprintf("reply %s, expected %s", got, want)
				} else {
					for _, k := range keys {
						if o, e := blObserve(ts, k), blExpect(m, k); o != e {
							msg = fmt.Sprintf("key %s is %s afterwards, expected %s", k, o, e)
							break
						}
					}
				}
				if msg != "" {
					fmt.Printf("BOUNDED-REFUTATION property=%s commands=%q : %s\n", prop, history, msg)
					ts.Close()
					t.FailNow()
				}
			}
			ts.Close()
			checked++
		}
	}
	fmt.Printf("BOUNDED-OK property=%s sequences=%d\n", prop, checked)
}

func bl05set(m blModel, k string) (map[string]bool, bool) {
	v := m[k]
	if v == nil {
		return map[string]bool{}, true
	}
	if v.kind != "set" {
		return nil, false
	}
	return v.s, true
}

func bl05put(m blModel, k string, s map[string]bool) {
	if len(s) == 0 {
		delete(m, k)
	} else {
		m[k] = &blVal{kind: "set", s: s}
	}
}

func bl05alg(op string, a, b map[string]bool) map[string]bool {
	r := map[string]bool{}
	switch op {
	case "inter":
		for x := range a {
			if b[x] {
				r[x] = true
			}
		}
	case "union":
		for x := range a {
			r[x] = true
		}
		for x := range b {
			r[x] = true
		}
	case "diff":
		for x := range a {
			if !b[x] {
				r[x] = true
			}
		}
	}
	return r
}

func bl05cmds() []blCmd {
	var cmds []blCmd
	for _, k := range []string{"a", "b"} {
		for _, x := range []string{"x", "y"} {
			k, x := k, x
			cmds = append(cmds, blCmd{[]string{"sadd", k, x}, func(m blModel) string {
				s, ok := bl05set(m, k)
				if !ok {
					return blWrong
				}
				n := 0
				if !s[x] {
					n = 1
				}
				ns := map[string]bool{x: true}
				for e := range s {
					ns[e] = true
				}
				bl05put(m, k, ns)
				return fmt.Sprintf("int:%d", n)
			}})
			cmds = append(cmds, blCmd{[]string{"srem", k, x}, func(m blModel) string {
				s, ok := bl05set(m, k)
				if !ok {
					return blWrong
				}
				n := 0
				ns := map[string]bool{}
				for e := range s {
					if e == x {
						n = 1
					} else {
						ns[e] = true
					}
				}
				if m[k] != nil {
					bl05put(m, k, ns)
				}
				return fmt.Sprintf("int:%d", n)
			}})
			cmds = append(cmds, blCmd{[]string{"sismember", k, x}, func(m blModel) string {
				s, ok := bl05set(m, k)
				if !ok {
					return blWrong
				}
				if s[x] {
					return "int:1"
				}
				return "int:0"
			}})
		}
		k2 := k
		cmds = append(cmds, blCmd{[]string{"scard", k2}, func(m blModel) string {
			s, ok := bl05set(m, k2)
			if !ok {
				return blWrong
			}
			return fmt.Sprintf("int:%d", len(s))
		}})
	}
	for _, mv := range [][3]string{{"a", "b", "x"}, {"b", "a", "y"}, {"a", "a", "x"}} {
		mv := mv
		cmds = append(cmds, blCmd{[]string{"smove", mv[0], mv[1], mv[2]}, func(m blModel) string {
			if m[mv[0]] == nil {
				return "int:0" // redis answers 0 for a missing source before looking at the destination's type
			}
			src, ok1 := bl05set(m, mv[0])
			dst, ok2 := bl05set(m, mv[1])
			if !ok1 || !ok2 {
				return blWrong
			}
			if !src[mv[2]] {
				return "int:0"
			}
			if mv[0] == mv[1] {
				return "int:1"
			}
			ns := map[string]bool{}
			for e := range src {
				if e != mv[2] {
					ns[e] = true
				}
			}
			nd := map[string]bool{mv[2]: true}
			for e := range dst {
				nd[e] = true
			}
			bl05put(m, mv[0], ns)
			bl05put(m, mv[1], nd)
			return "int:1"
		}})
	}
	for _, op := range []string{"inter", "union", "diff"} {
		op := op
		cmds = append(cmds, blCmd{[]string{"s" + op, "a", "b"}, func(m blModel) string {
			a, ok1 := bl05set(m, "a")
			b, ok2 := bl05set(m, "b")
			// (redis 7 treats a missing operand of SINTER as an empty set and still type-checks the operands after it)
			if !ok1 || !ok2 {
				return blWrong
			}
			return blSorted(bl05alg(op, a, b))
		}})
		for _, dest := range []string{"d", "a", "b"} {
			dest := dest
			cmds = append(cmds, blCmd{[]string{"s" + op + "store", dest, "a", "b"}, func(m blModel) string {
				a, ok1 := bl05set(m, "a")
				b, ok2 := bl05set(m, "b")
				if !ok1 || !ok2 {
					return blWrong
				}
				r := bl05alg(op, a, b)
				bl05put(m, dest, r)
				return fmt.Sprintf("int:%d", len(r))
			}})
		}
	}
	cmds = append(cmds, blCmd{[]string{"set", "b", "v"}, func(m blModel) string {
		m["b"] = &blVal{kind: "string", str: "v"}
		return "str:OK"
	}})
	cmds = append(cmds, blCmd{[]string{"del", "a"}, func(m blModel) string {
		n := 0
		if m["a"] != nil {
			n = 1
		}
		delete(m, "a")
		return fmt.Sprintf("int:%d", n)
	}})
	return cmds
}

func TestGovcBoundedC05(t *testing.T) {
	blRun(t, "C05", []string{"a", "b", "d"}, bl05cmds(), func(args []string) bool {
		return args[0] == "sinter" || args[0] == "sunion" || args[0] == "sdiff"
	}, 3)
}
