//go:build verif

package redisemu

// Bounded refutation harness for C03 (lists). It is NOT a proof and is never
// counted as one: the C03 check runs it only to look for a concrete failing
// input when an obligation that was discharged on the pinned tree can no
// longer be generated or discharged (e.g. a helper was restructured, so the
// contract is unbound). It enumerates every sequence of up to 3 operations on
// initial lists of length 0..3 over a 2-letter alphabet, executes them on the
// real store methods and compares with a slice model; after every step it also
// checks the representation invariant natively (head/tail/prev/next/count).

import (
	"fmt"
	"strings"
	"testing"
)

type bl03op struct {
	name string
	run  func(dsc *dataStoreCommand, m []string) ([]string, string) // returns new model, observed-vs-expected error
}

func bl03bytes(ss ...string) [][]byte {
	out := make([][]byte, 0, len(ss))
	for _, s := range ss {
		out = append(out, []byte(s))
	}
	return out
}

func bl03dump(dsc *dataStoreCommand) ([]string, string) {
	dsc.lock()
	defer dsc.unlock()
	list, _ := dsc.getListUnlocked("k")
	if list == nil {
		return nil, ""
	}
	var fwd []string
	n := 0
	var prev *listItem
	for p := list.head; p != nil; p = p.next {
		if p.prev != prev {
			return nil, fmt.Sprintf("node %d: prev link does not point to the previous node", n)
		}
		fwd = append(fwd, string(p.element))
		prev = p
		n++
		if n > 64 {
			return nil, "next chain does not terminate"
		}
	}
	if prev != list.tail {
		return nil, "tail does not point to the last node of the next chain"
	}
	if list.count != n {
		return nil, fmt.Sprintf("count=%d but %d nodes are linked", list.count, n)
	}
	if n == 0 {
		return nil, "an empty list is still stored under its key"
	}
	return fwd, ""
}

func bl03norm(n, i int) int {
	if i < 0 {
		i = n + i
	}
	return i
}

func bl03ops() []bl03op {
	var ops []bl03op
	for _, v := range []string{"a", "b"} {
		v := v
		ops = append(ops, bl03op{"LPUSH " + v, func(dsc *dataStoreCommand, m []string) ([]string, string) {
			dsc.lpush("k", bl03bytes(v))
			return append([]string{v}, m...), ""
		}})
		ops = append(ops, bl03op{"RPUSH " + v, func(dsc *dataStoreCommand, m []string) ([]string, string) {
			dsc.rpush("k", bl03bytes(v))
			return append(append([]string{}, m...), v), ""
		}})
		for _, before := range []bool{true, false} {
			before := before
			for _, pivot := range []string{"a", "b"} {
				pivot := pivot
				ops = append(ops, bl03op{fmt.Sprintf("LINSERT before=%v %s %s", before, pivot, v), func(dsc *dataStoreCommand, m []string) ([]string, string) {
					dsc.linsert("k", before, pivot, v)
					for i, e := range m {
						if e == pivot {
							at := i
							if !before {
								at = i + 1
							}
							nm := append([]string{}, m[:at]...)
							nm = append(nm, v)
							nm = append(nm, m[at:]...)
							return nm, ""
						}
					}
					return m, ""
				}})
			}
		}
		for _, cnt := range []int{0, 1, -1} {
			cnt := cnt
			ops = append(ops, bl03op{fmt.Sprintf("LREM %d %s", cnt, v), func(dsc *dataStoreCommand, m []string) ([]string, string) {
				dsc.lremove("k", v, cnt)
				nm := append([]string{}, m...)
				removed := 0
				limit := cnt
				if limit < 0 {
					limit = -limit
				}
				if cnt >= 0 {
					for i := 0; i < len(nm); {
						if nm[i] == v && (cnt == 0 || removed < limit) {
							nm = append(nm[:i], nm[i+1:]...)
							removed++
						} else {
							i++
						}
					}
				} else {
					for i := len(nm) - 1; i >= 0; i-- {
						if nm[i] == v && removed < limit {
							nm = append(nm[:i], nm[i+1:]...)
							removed++
						}
					}
				}
				return nm, ""
			}})
		}
		for _, idx := range []int{0, -1, 1} {
			idx := idx
			ops = append(ops, bl03op{fmt.Sprintf("LSET %d %s", idx, v), func(dsc *dataStoreCommand, m []string) ([]string, string) {
				dsc.lset("k", v, idx)
				i := bl03norm(len(m), idx)
				if i >= 0 && i < len(m) {
					nm := append([]string{}, m...)
					nm[i] = v
					return nm, ""
				}
				return m, ""
			}})
		}
	}
	ops = append(ops, bl03op{"LPOP", func(dsc *dataStoreCommand, m []string) ([]string, string) {
		vals, _ := dsc.lpop("k", 1)
		if len(m) == 0 {
			if len(vals) != 0 {
				return m, "LPOP on a missing list returned an element"
			}
			return m, ""
		}
		if len(vals) != 1 || string(vals[0]) != m[0] {
			return m, fmt.Sprintf("LPOP returned %q, expected %q", vals, m[0])
		}
		return m[1:], ""
	}})
	ops = append(ops, bl03op{"RPOP", func(dsc *dataStoreCommand, m []string) ([]string, string) {
		vals, _ := dsc.rpop("k", 1)
		if len(m) == 0 {
			if len(vals) != 0 {
				return m, "RPOP on a missing list returned an element"
			}
			return m, ""
		}
		if len(vals) != 1 || string(vals[0]) != m[len(m)-1] {
			return m, fmt.Sprintf("RPOP returned %q, expected %q", vals, m[len(m)-1])
		}
		return m[:len(m)-1], ""
	}})
	for _, idx := range []int{0, -1, 1, -2} {
		idx := idx
		ops = append(ops, bl03op{fmt.Sprintf("LINDEX %d", idx), func(dsc *dataStoreCommand, m []string) ([]string, string) {
			out := dsc.lindex("k", idx)
			i := bl03norm(len(m), idx)
			if i >= 0 && i < len(m) {
				if fmt.Sprint(out.data) != m[i] {
					return m, fmt.Sprintf("LINDEX %d returned %v, expected %q", idx, out.data, m[i])
				}
			} else if out.data != nil {
				return m, fmt.Sprintf("LINDEX %d returned %v, expected nil", idx, out.data)
			}
			return m, ""
		}})
	}
	for _, r := range [][2]int{{0, 0}, {1, -1}, {0, -2}, {-2, -1}, {2, 1}} {
		r := r
		ops = append(ops, bl03op{fmt.Sprintf("LTRIM %d %d", r[0], r[1]), func(dsc *dataStoreCommand, m []string) ([]string, string) {
			dsc.ltrim("k", r[0], r[1])
			n := len(m)
			s, e := bl03norm(n, r[0]), bl03norm(n, r[1])
			if s < 0 {
				s = 0
			}
			if e >= n {
				e = n - 1
			}
			if s > e || s >= n {
				return nil, ""
			}
			return append([]string{}, m[s:e+1]...), ""
		}})
	}
	for _, sl := range []bool{true, false} {
		for _, dl := range []bool{true, false} {
			sl, dl := sl, dl
			ops = append(ops, bl03op{fmt.Sprintf("LMOVE k k srcLeft=%v dstLeft=%v", sl, dl), func(dsc *dataStoreCommand, m []string) ([]string, string) {
				dsc.lmove("k", "k", sl, dl)
				if len(m) == 0 {
					return m, ""
				}
				nm := append([]string{}, m...)
				var e string
				if sl {
					e, nm = nm[0], nm[1:]
				} else {
					e, nm = nm[len(nm)-1], nm[:len(nm)-1]
				}
				if dl {
					nm = append([]string{e}, nm...)
				} else {
					nm = append(nm, e)
				}
				return nm, ""
			}})
		}
	}
	return ops
}

func TestGovcBoundedC03(t *testing.T) {
	ops := bl03ops()
	inits := [][]string{{}, {"a"}, {"b", "a"}, {"a", "b", "a"}}
	checked := 0
	var seq [3]int
	for _, init := range inits {
		for depth := 1; depth <= 3; depth++ {
			total := 1
			for d := 0; d < depth; d++ {
				total *= len(ops)
			}
			if depth == 3 {
				// third level: only structure-changing first two steps followed by observers
			}
			for code := 0; code < total; code++ {
				c := code
				for d := 0; d < depth; d++ {
					seq[d] = c % len(ops)
					c /= len(ops)
				}
				ds := newDataStore()
				dsc := ds.newDataStoreCommand()
				if len(init) > 0 {
					dsc.rpush("k", bl03bytes(init...))
				}
				model := append([]string{}, init...)
				var names []string
				for d := 0; d < depth; d++ {
					op := ops[seq[d]]
					names = append(names, op.name)
					var msg string
					func() {
						defer func() {
							if r := recover(); r != nil {
								msg = fmt.Sprintf("panic: %v", r)
							}
						}()
						model, msg = op.run(dsc, model)
					}()
					if msg == "" {
						got, wfmsg := bl03dump(dsc)
						if wfmsg != "" {
							msg = "list structure broken: " + wfmsg
						} else if strings.Join(got, ",") != strings.Join(model, ",") {
							msg = fmt.Sprintf("list is %v, expected %v", got, model)
						}
					}
					if msg != "" {
						fmt.Printf("BOUNDED-REFUTATION property=C03 initial=%v ops=%v : %s\n", init, names, msg)
						t.FailNow()
					}
				}
				checked++
			}
		}
	}
	fmt.Printf("BOUNDED-OK property=C03 sequences=%d\n", checked)
}
