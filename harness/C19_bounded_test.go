//go:build verif

package redisemu

// Bounded refutation harness for C19 (snapshot files at start-up). It is NOT a
// proof and is never counted as one: the C19 check runs it only to look for a
// concrete failing input when an obligation that was discharged on the pinned
// tree can no longer be generated or discharged, or in the thorough tier. It
// saves three databases, then for every database and several cut points plants
// a truncated copy of its snapshot under the temporary name an interrupted
// save leaves behind (<base>.db<n>.tmp) together with a few other stray files,
// restarts on the same path and compares every database with what was saved.

import (
	"context"
	"fmt"
	"os"
	"path/filepath"
	"testing"

	"github.com/jimsnab/go-lane"
)

func TestGovcBoundedC19(t *testing.T) {
	l := lane.NewTestingLane(context.Background())
	dir := t.TempDir()
	base := filepath.Join(dir, "snap")
	want := map[int]int{0: 3, 5: 5, 9: 2} // sparse indexes: a database must not be filed under its position in some list

	dss := newDataStoreSet(l, base, nil)
	for idx, n := range want {
		ds, ok := dss.getDb(idx, true)
		if !ok {
			t.Fatalf("no database %d", idx)
		}
		vals := [][]byte{}
		for i := 0; i < n; i++ {
			vals = append(vals, []byte(fmt.Sprintf("v%d-%d", idx, i)))
		}
		ds.newDataStoreCommand().rpush("list", vals)
	}
	if err := dss.save(l); err != nil {
		t.Fatal(err)
	}

	checked := 0
	for victim := range want {
		live := fmt.Sprintf("%s.db%d", base, victim)
		data, err := os.ReadFile(live)
		if err != nil {
			t.Fatalf("no snapshot file %s: %v", live, err)
		}
		for _, cut := range []int{0, 1, 10, len(data) / 2, len(data) - 1} {
			if cut < 0 || cut > len(data) {
				continue
			}
			strays := []string{live + ".tmp", live + ".bak", base + ".dbx", live + "0.tmp"}
			for _, s := range strays {
				os.WriteFile(s, data[:cut], 0o644)
			}
			restarted := newDataStoreSet(l, base, nil)
			for idx, n := range want {
				ds, ok := restarted.getDb(idx, false)
				got := -1
				if ok {
					if v, isInt := ds.newDataStoreCommand().llen("list").data.(respInt); isInt {
						got = int(v)
					}
				}
				if got != n {
					fmt.Printf("BOUNDED-REFUTATION property=C19 stray files=%q cut at %d of %d bytes : after a restart database %d holds a list of %d elements, %d were saved\n", strays, cut, len(data), idx, got, n)
					t.FailNow()
				}
				// the restored list is the saved one from both ends (a restored list must be doubly linked)
				if ok && n > 0 {
					dsc := ds.newDataStoreCommand()
					for pos := 0; pos < n; pos++ {
						want := fmt.Sprintf("v%d-%d", idx, pos)
						fromHead, _ := dsc.lindex("list", pos).data.(respBulkString)
						fromTail, _ := dsc.lindex("list", pos-n).data.(respBulkString)
						if string(fromHead) != want || string(fromTail) != want {
							fmt.Printf("BOUNDED-REFUTATION property=C19 after a restart database %d: element %d of the list reads %q from the head and %q from the tail (index %d), %q was saved\n", idx, pos, string(fromHead), string(fromTail), pos-n, want)
							t.FailNow()
						}
					}
				}
			}
			for _, s := range strays {
				os.Remove(s)
			}
			checked++
		}
	}
	fmt.Printf("BOUNDED-OK property=C19 restarts=%d\n", checked)
}
