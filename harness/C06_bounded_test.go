//go:build verif

package redisemu

// Bounded refutation harness for C06 (keyspace commands: COPY/RENAME/DEL with in-place writers). It is NOT a proof and is
// never counted as one: the C06 check runs it only to look for a concrete
// failing input when an obligation that was discharged on the pinned tree can
// no longer be generated or discharged (annotation unbound after a
// restructuring, engine limit), or in the thorough tier. It runs every
// sequence of up to 3 commands from a small command table through the
// in-process test client of the real emulator and compares every reply and
// the complete keyspace after every command with a direct model of the redis
// semantics (Go maps).

import (
	"fmt"
	"sort"
	"strconv"
	"strings"
	"testing"
)

type blVal struct {
	kind string // "string", "hash", "set"
	str  string
	h    map[string]string
	s    map[string]bool
}

type blModel map[string]*blVal

type blCmd struct {
	args  []string
	model func(m blModel) string // applies the command to the model, returns the expected reply
}

const blWrong = "err:WRONGTYPE"

func blNorm(v any, sortIt bool) string {
	switch x := v.(type) {
	case nil:
		return "nil"
	case int64:
		return "int:" + strconv.FormatInt(x, 10)
	case string:
		return "str:" + x
	case []any:
		var parts []string
		for _, e := range x {
			parts = append(parts, blNorm(e, false))
		}
		if sortIt {
			sort.Strings(parts)
		}
		return "[" + strings.Join(parts, " ") + "]"
	case map[string]any:
		var parts []string
		for k, e := range x {
			parts = append(parts, k+"="+blNorm(e, false))
		}
		sort.Strings(parts)
		return "{" + strings.Join(parts, " ") + "}"
	case map[any]any:
		var parts []string
		for k, e := range x {
			parts = append(parts, fmt.Sprint(k)+"="+blNorm(e, false))
		}
		sort.Strings(parts)
		return "{" + strings.Join(parts, " ") + "}"
	}
	return fmt.Sprintf("%T:%v", v, v)
}

func blReply(out respValue, sortIt bool) string {
	if e, isErr := out.data.(respErrorString); isErr {
		s := string(e)
		if strings.HasPrefix(s, "WRONGTYPE") {
			return blWrong
		}
		return "err:" + strings.SplitN(s, " ", 2)[0]
	}
	return blNorm(out.toNative(), sortIt)
}

func blSorted(m map[string]bool) string {
	var ks []string
	for k := range m {
		ks = append(ks, "str:"+k)
	}
	sort.Strings(ks)
	return "[" + strings.Join(ks, " ") + "]"
}

func blHash(h map[string]string) string {
	var ks []string
	for k, v := range h {
		ks = append(ks, k+"=str:"+v)
	}
	sort.Strings(ks)
	return "{" + strings.Join(ks, " ") + "}"
}

// state of one key as the emulator reports it
func blObserve(ts RedisTestClient, k string) string {
	typ := blReply(ts.ProcessCommand("type", k), false)
	switch typ {
	case "str:none":
		return "none"
	case "str:string":
		return "string " + blReply(ts.ProcessCommand("get", k), false)
	case "str:set":
		return "set " + blReply(ts.ProcessCommand("smembers", k), true)
	case "str:hash":
		out := ts.ProcessCommand("hgetall", k)
		nat := out.toNative()
		// RESP2 shape: flat array field,value,...
		if arr, ok := nat.([]any); ok {
			var ks []string
			for i := 0; i+1 < len(arr); i += 2 {
				ks = append(ks, blNorm(arr[i], false)+"="+blNorm(arr[i+1], false))
			}
			sort.Strings(ks)
			return "hash {" + strings.Join(ks, " ") + "}"
		}
		return "hash " + blNorm(nat, false)
	}
	return typ
}

func blExpect(m blModel, k string) string {
	v := m[k]
	if v == nil {
		return "none"
	}
	switch v.kind {
	case "string":
		return "string str:" + v.str
	case "set":
		return "set " + blSorted(v.s)
	case "hash":
		return "hash " + blHash(v.h)
	}
	return "?"
}

func blRun(t *testing.T, prop string, keys []string, cmds []blCmd, sortReply func(args []string) bool, depth int) {
	checked := 0
	idx := make([]int, depth)
	for d := 1; d <= depth; d++ {
		total := 1
		for i := 0; i < d; i++ {
			total *= len(cmds)
		}
		for code := 0; code < total; code++ {
			c := code
			for i := 0; i < d; i++ {
				idx[i] = c % len(cmds)
				c /= len(cmds)
			}
			ts := NewRedisTestClient(t)
			m := blModel{}
			var history []string
			for i := 0; i < d; i++ {
				cmd := cmds[idx[i]]
				history = append(history, strings.Join(cmd.args, " "))
				var got string
				func() {
					defer func() {
						if r := recover(); r != nil {
							got = fmt.Sprintf("panic: %v", r)
						}
					}()
					anyArgs := make([]any, 0, len(cmd.args)-1)
					for _, a := range cmd.args[1:] {
						anyArgs = append(anyArgs, a)
					}
					got = blReply(ts.ProcessCommand(cmd.args[0], anyArgs...), sortReply(cmd.args))
				}()
				want := cmd.model(m)
				msg := ""
				if got != want {
					msg = fmt.Sprintf("reply %s, expected %s", got, want)
				} else {
					for _, k := range keys {
						if o, e := blObserve(ts, k), blExpect(m, k); o != e {
							msg = fmt.Sprintf("key %s is %s afterwards, expected %s", k, o, e)
							break
						}
					}
				}
				if msg != "" {
					fmt.Printf("BOUNDED-REFUTATION property=%s commands=%q : %s\n", prop, history, msg)
					ts.Close()
					t.FailNow()
				}
			}
			ts.Close()
			checked++
		}
	}
	fmt.Printf("BOUNDED-OK property=%s sequences=%d\n", prop, checked)
}

func bl06clone(v *blVal) *blVal {
	if v == nil {
		return nil
	}
	c := &blVal{kind: v.kind, str: v.str}
	if v.h != nil {
		c.h = map[string]string{}
		for k, x := range v.h {
			c.h[k] = x
		}
	}
	if v.s != nil {
		c.s = map[string]bool{}
		for k := range v.s {
			c.s[k] = true
		}
	}
	return c
}

func bl06cmds() []blCmd {
	var cmds []blCmd
	set := func(m blModel, key, v string) { m[key] = &blVal{kind: "string", str: v} }
	keys := []string{"a", "b"}
	cmds = append(cmds, blCmd{[]string{"set", "a", "AAAA"}, func(m blModel) string { set(m, "a", "AAAA"); return "str:OK" }})
	cmds = append(cmds, blCmd{[]string{"hset", "a", "f", "1"}, func(m blModel) string {
		v := m["a"]
		if v != nil && v.kind != "hash" {
			return blWrong
		}
		if v == nil {
			v = &blVal{kind: "hash", h: map[string]string{}}
			m["a"] = v
		}
		n := 1
		if _, ok := v.h["f"]; ok {
			n = 0
		}
		v.h["f"] = "1"
		return fmt.Sprintf("int:%d", n)
	}})
	cmds = append(cmds, blCmd{[]string{"sadd", "a", "x"}, func(m blModel) string {
		v := m["a"]
		if v != nil && v.kind != "set" {
			return blWrong
		}
		if v == nil {
			v = &blVal{kind: "set", s: map[string]bool{}}
			m["a"] = v
		}
		n := 1
		if v.s["x"] {
			n = 0
		}
		v.s["x"] = true
		return fmt.Sprintf("int:%d", n)
	}})
	for _, k := range keys {
		k := k
		// in-place writers: they must change exactly the key they name
		cmds = append(cmds, blCmd{[]string{"setbit", k, "6", "1"}, func(m blModel) string {
			v := m[k]
			if v != nil && v.kind != "string" {
				return blWrong
			}
			b := []byte{}
			if v != nil {
				b = []byte(v.str)
			}
			if len(b) == 0 {
				b = []byte{0}
			}
			old := (b[0] >> 1) & 1
			b[0] |= 2
			set(m, k, string(b))
			return fmt.Sprintf("int:%d", old)
		}})
		cmds = append(cmds, blCmd{[]string{"append", k, "z"}, func(m blModel) string {
			v := m[k]
			if v != nil && v.kind != "string" {
				return blWrong
			}
			cur := ""
			if v != nil {
				cur = v.str
			}
			set(m, k, cur+"z")
			return fmt.Sprintf("int:%d", len(cur)+1)
		}})
		cmds = append(cmds, blCmd{[]string{"hset", k, "g", "2"}, func(m blModel) string {
			v := m[k]
			if v != nil && v.kind != "hash" {
				return blWrong
			}
			if v == nil {
				v = &blVal{kind: "hash", h: map[string]string{}}
				m[k] = v
			}
			n := 1
			if _, ok := v.h["g"]; ok {
				n = 0
			}
			v.h["g"] = "2"
			return fmt.Sprintf("int:%d", n)
		}})
		cmds = append(cmds, blCmd{[]string{"srem", k, "x"}, func(m blModel) string {
			v := m[k]
			if v == nil {
				return "int:0"
			}
			if v.kind != "set" {
				return blWrong
			}
			n := 0
			if v.s["x"] {
				n = 1
				delete(v.s, "x")
			}
			if len(v.s) == 0 {
				delete(m, k)
			}
			return fmt.Sprintf("int:%d", n)
		}})
		cmds = append(cmds, blCmd{[]string{"del", k}, func(m blModel) string {
			n := 0
			if m[k] != nil {
				n = 1
			}
			delete(m, k)
			return fmt.Sprintf("int:%d", n)
		}})
		cmds = append(cmds, blCmd{[]string{"exists", k}, func(m blModel) string {
			if m[k] != nil {
				return "int:1"
			}
			return "int:0"
		}})
	}
	cmds = append(cmds, blCmd{[]string{"copy", "a", "b"}, func(m blModel) string {
		if m["a"] == nil || m["b"] != nil {
			return "int:0"
		}
		m["b"] = bl06clone(m["a"])
		return "int:1"
	}})
	cmds = append(cmds, blCmd{[]string{"copy", "a", "b", "replace"}, func(m blModel) string {
		if m["a"] == nil {
			return "int:0"
		}
		m["b"] = bl06clone(m["a"])
		return "int:1"
	}})
	cmds = append(cmds, blCmd{[]string{"rename", "a", "b"}, func(m blModel) string {
		if m["a"] == nil {
			return "err:ERR"
		}
		m["b"] = m["a"]
		delete(m, "a")
		return "str:OK"
	}})
	cmds = append(cmds, blCmd{[]string{"renamenx", "b", "a"}, func(m blModel) string {
		if m["b"] == nil {
			return "err:ERR"
		}
		if m["a"] != nil {
			return "int:0"
		}
		m["a"] = m["b"]
		delete(m, "b")
		return "int:1"
	}})
	return cmds
}

func TestGovcBoundedC06(t *testing.T) {
	blRun(t, "C06", []string{"a", "b"}, bl06cmds(), func(args []string) bool { return false }, 3)
}
