//go:build verif

package redisemu

// Bounded refutation harness for C04 (hashes). It is NOT a proof and is
// never counted as one: the C04 check runs it only to look for a concrete
// failing input when an obligation that was discharged on the pinned tree can
// no longer be generated or discharged (annotation unbound after a
// restructuring, engine limit), or in the thorough tier. It runs every
// sequence of up to 2 commands from a small command table through the
// in-process test client of the real emulator and compares every reply and
// the complete keyspace after every command with a direct model of the redis
// semantics (Go maps).

import (
	"fmt"
	"sort"
	"strconv"
	"strings"
	"testing"
)

type blVal struct {
	kind string // "string", "hash", "set"
	str  string
	h    map[string]string
	s    map[string]bool
}

type blModel map[string]*blVal

type blCmd struct {
	args  []string
	model func(m blModel) string // applies the command to the model, returns the expected reply
}

const blWrong = "err:WRONGTYPE"

func blNorm(v any, sortIt bool) string {
	switch x := v.(type) {
	case nil:
		return "nil"
	case int64:
		return "int:" + strconv.FormatInt(x, 10)
	case string:
		return "str:" + x
	case []any:
		var parts []string
		for _, e := range x {
			parts = append(parts, blNorm(e, false))
		}
		if sortIt {
			sort.Strings(parts)
		}
		return "[" + strings.Join(parts, " ") + "]"
	case map[string]any:
		var parts []string
		for k, e := range x {
			parts = append(parts, k+"="+blNorm(e, false))
		}
		sort.Strings(parts)
		return "{" + strings.Join(parts, " ") + "}"
	case map[any]any:
		var parts []string
		for k, e := range x {
			parts = append(parts, fmt.Sprint(k)+"="+blNorm(e, false))
		}
		sort.Strings(parts)
		return "{" + strings.Join(parts, " ") + "}"
	}
	return fmt.Sprintf("%T:%v", v, v)
}

func blReply(out respValue, sortIt bool) string {
	if e, isErr := out.data.(respErrorString); isErr {
		s := string(e)
		if strings.HasPrefix(s, "WRONGTYPE") {
			return blWrong
		}
		return "err:" + strings.SplitN(s, " ", 2)[0]
	}
	return blNorm(out.toNative(), sortIt)
}

func blSorted(m map[string]bool) string {
	var ks []string
	for k := range m {
		ks = append(ks, "str:"+k)
	}
	sort.Strings(ks)
	return "[" + strings.Join(ks, " ") + "]"
}

func blHash(h map[string]string) string {
	var ks []string
	for k, v := range h {
		ks = append(ks, k+"=str:"+v)
	}
	sort.Strings(ks)
	return "{" + strings.Join(ks, " ") + "}"
}

// state of one key as the emulator reports it
func blObserve(ts RedisTestClient, k string) string {
	typ := blReply(ts.ProcessCommand("type", k), false)
	switch typ {
	case "str:none":
		return "none"
	case "str:string":
		return "string " + blReply(ts.ProcessCommand("get", k), false)
	case "str:set":
		return "set " + blReply(ts.ProcessCommand("smembers", k), true)
	case "str:hash":
		out := ts.ProcessCommand("hgetall", k)
		nat := out.toNative()
		// RESP2 shape: flat array field,value,...
		if arr, ok := nat.([]any); ok {
			var ks []string
			for i := 0; i+1 < len(arr); i += 2 {
				ks = append(ks, blNorm(arr[i], false)+"="+blNorm(arr[i+1], false))
			}
			sort.Strings(ks)
			return "hash {" + strings.Join(ks, " ") + "}"
		}
		return "hash " + blNorm(nat, false)
	}
	return typ
}

func blExpect(m blModel, k string) string {
	v := m[k]
	if v == nil {
		return "none"
	}
	switch v.kind {
	case "string":
		return "string str:" + v.str
	case "set":
		return "set " + blSorted(v.s)
	case "hash":
		return "hash " + blHash(v.h)
	}
	return "?"
}

func blRun(t *testing.T, prop string, keys []string, cmds []blCmd, sortReply func(args []string) bool, depth int) {
	checked := 0
	idx := make([]int, depth)
	for d := 1; d <= depth; d++ {
		total := 1
		for i := 0; i < d; i++ {
			total *= len(cmds)
		}
		for code := 0; code < total; code++ {
			c := code
			for i := 0; i < d; i++ {
				idx[i] = c % len(cmds)
				c /= len(cmds)
			}
			ts := NewRedisTestClient(t)
			m := blModel{}
			var history []string
			for i := 0; i < d; i++ {
				cmd := cmds[idx[i]]
				history = append(history, strings.Join(cmd.args, " "))
				var got string
				func() {
					defer func() {
						if r := recover(); r != nil {
							got = fmt.Sprintf("panic: %v", r)
						}
					}()
					anyArgs := make([]any, 0, len(cmd.args)-1)
					for _, a := range cmd.args[1:] {
						anyArgs = append(anyArgs, a)
					}
					got = blReply(ts.ProcessCommand(cmd.args[0], anyArgs...), sortReply(cmd.args))
				}()
				want := cmd.model(m)
				msg := ""
				if got != want {
					msg = fmt.Sprintf("reply %s, expected %s", got, want)
				} else {
					for _, k := range keys {
						if o, e := blObserve(ts, k), blExpect(m, k); o != e {
							msg = fmt.Sprintf("key %s is %s afterwards, expected %s", k, o, e)
							break
						}
					}
				}
				if msg != "" {
					fmt.Printf("BOUNDED-REFUTATION property=%s commands=%q : %s\n", prop, history, msg)
					ts.Close()
					t.FailNow()
				}
			}
			ts.Close()
			checked++
		}
	}
	fmt.Printf("BOUNDED-OK property=%s sequences=%d\n", prop, checked)
}

func bl04hash(m blModel, k string) (map[string]string, bool) {
	v := m[k]
	if v == nil {
		return map[string]string{}, true
	}
	if v.kind != "hash" {
		return nil, false
	}
	return v.h, true
}

func bl04put(m blModel, k string, h map[string]string) {
	if len(h) == 0 {
		delete(m, k)
	} else {
		m[k] = &blVal{kind: "hash", h: h}
	}
}

func bl04copy(h map[string]string) map[string]string {
	n := map[string]string{}
	for k, v := range h {
		n[k] = v
	}
	return n
}

func bl04cmds() []blCmd {
	var cmds []blCmd
	k := "h"
	for _, f := range []string{"f", "g"} {
		f := f
		for _, v := range []string{"5", "x", "9223372036854775807"} {
			v := v
			cmds = append(cmds, blCmd{[]string{"hset", k, f, v}, func(m blModel) string {
				h, ok := bl04hash(m, k)
				if !ok {
					return blWrong
				}
				n := 0
				if _, has := h[f]; !has {
					n = 1
				}
				nh := bl04copy(h)
				nh[f] = v
				bl04put(m, k, nh)
				return fmt.Sprintf("int:%d", n)
			}})
		}
		cmds = append(cmds, blCmd{[]string{"hsetnx", k, f, "n"}, func(m blModel) string {
			h, ok := bl04hash(m, k)
			if !ok {
				return blWrong
			}
			if _, has := h[f]; has {
				return "int:0"
			}
			nh := bl04copy(h)
			nh[f] = "n"
			bl04put(m, k, nh)
			return "int:1"
		}})
		cmds = append(cmds, blCmd{[]string{"hdel", k, f}, func(m blModel) string {
			h, ok := bl04hash(m, k)
			if !ok {
				return blWrong
			}
			if _, has := h[f]; !has {
				return "int:0"
			}
			nh := bl04copy(h)
			delete(nh, f)
			bl04put(m, k, nh)
			return "int:1"
		}})
		cmds = append(cmds, blCmd{[]string{"hget", k, f}, func(m blModel) string {
			h, ok := bl04hash(m, k)
			if !ok {
				return blWrong
			}
			if v, has := h[f]; has {
				return "str:" + v
			}
			return "nil"
		}})
		cmds = append(cmds, blCmd{[]string{"hexists", k, f}, func(m blModel) string {
			h, ok := bl04hash(m, k)
			if !ok {
				return blWrong
			}
			if _, has := h[f]; has {
				return "int:1"
			}
			return "int:0"
		}})
		for _, d := range []string{"3", "-7", "9223372036854775807", "-9223372036854775808"} {
			d := d
			cmds = append(cmds, blCmd{[]string{"hincrby", k, f, d}, func(m blModel) string {
				h, ok := bl04hash(m, k)
				if !ok {
					return blWrong
				}
				cur := int64(0)
				if v, has := h[f]; has {
					p, err := strconv.ParseInt(v, 10, 64)
					if err != nil {
						return "err:ERR"
					}
					cur = p
				}
				dv, _ := strconv.ParseInt(d, 10, 64)
				sum := cur + dv
				if (dv > 0 && sum < cur) || (dv < 0 && sum > cur) {
					return "err:ERR"
				}
				nh := bl04copy(h)
				nh[f] = strconv.FormatInt(sum, 10)
				bl04put(m, k, nh)
				return fmt.Sprintf("int:%d", sum)
			}})
		}
	}
	cmds = append(cmds, blCmd{[]string{"hlen", k}, func(m blModel) string {
		h, ok := bl04hash(m, k)
		if !ok {
			return blWrong
		}
		return fmt.Sprintf("int:%d", len(h))
	}})
	cmds = append(cmds, blCmd{[]string{"del", k}, func(m blModel) string {
		n := 0
		if m[k] != nil {
			n = 1
		}
		delete(m, k)
		return fmt.Sprintf("int:%d", n)
	}})
	cmds = append(cmds, blCmd{[]string{"set", k, "v"}, func(m blModel) string {
		m[k] = &blVal{kind: "string", str: "v"}
		return "str:OK"
	}})
	return cmds
}

func TestGovcBoundedC04(t *testing.T) {
	blRun(t, "C04", []string{"h"}, bl04cmds(), func(args []string) bool { return false }, 2)
}
