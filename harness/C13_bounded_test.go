//go:build verif

package redisemu

// Bounded refutation harness for C13 (no input crashes the process or stalls
// it). It is NOT a proof and is never counted as one: the C13 check runs it
// only to look for a concrete failing input when an obligation that was
// discharged on the pinned tree can no longer be generated or discharged, or in
// the thorough tier. It sends about a hundred command lines (every key type as
// first argument where one is expected, boundary integers, empty strings) to
// the in-process test client in four keyspace states - empty, only an expired
// key left, one key of every type, the same with every key expired - and
// demands that each command returns within three seconds without a panic.

import (
	"fmt"
	"strings"
	"testing"
	"time"
)

func TestGovcBoundedC13(t *testing.T) {
	keys := []string{"s", "l", "h", "z", "missing", "gone"}
	ints := []string{"0", "1", "-1", "2", "9223372036854775807", "-9223372036854775808", "4294967296", "2147483648"}
	var lines [][]string
	add := func(parts ...string) { lines = append(lines, parts) }
	for _, k := range keys {
		for _, c := range []string{"get", "strlen", "getdel", "llen", "lpop", "rpop", "hlen", "hgetall", "hkeys", "hvals", "scard", "smembers", "spop", "srandmember", "hrandfield", "type", "ttl", "pttl", "expiretime", "persist", "exists", "del", "unlink", "touch", "dump", "incr", "decr", "sort", "bitcount"} {
			add(c, k)
		}
		for _, n := range ints {
			add("lindex", k, n)
			add("lrange", k, n, "-1")
			add("ltrim", k, "0", n)
			add("getrange", k, n, "-1")
			add("getbit", k, n)
			add("bitpos", k, "1", n)
			add("incrby", k, n)
			add("expire", k, n)
			add("lpop", k, n)
			add("lrem", k, n, "a")
			add("lset", k, n, "x")
		}
		add("srandmember", k, "-3")
		add("srandmember", k, "3")
		add("hrandfield", k, "-3", "withvalues")
		add("hrandfield", k, "3")
		add("sscan", k, "0")
		add("hscan", k, "0", "count", "1")
		add("lpos", k, "a", "rank", "-1", "maxlen", "0")
		add("linsert", k, "before", "a", "b")
		add("setrange", k, "1", "x")
		add("append", k, "x")
		add("lmpop", "1", k, "left", "count", "2")
		add("sintercard", "1", k)
		add("smove", k, "z2", "a")
		add("rename", k, "r2")
		add("copy", k, "c2", "replace")
	}
	add("randomkey")
	add("dbsize")
	add("keys", "*")
	add("scan", "0", "count", "1")
	add("scan", "0", "type", "STRING")
	add("flushdb")

	setup := map[string]func(ts RedisTestClient){
		"empty keyspace": func(ts RedisTestClient) {},
		"only an expired key": func(ts RedisTestClient) {
			ts.ProcessCommand("set", "gone", "v", "px", "1")
			time.Sleep(5 * time.Millisecond)
		},
		"one key of every type": func(ts RedisTestClient) {
			ts.ProcessCommand("set", "s", "\x01abc")
			ts.ProcessCommand("rpush", "l", "a", "b", "a")
			ts.ProcessCommand("hset", "h", "f", "1", "g", "x")
			ts.ProcessCommand("sadd", "z", "a", "b")
		},
		"every key expired": func(ts RedisTestClient) {
			ts.ProcessCommand("set", "s", "abc", "px", "1")
			ts.ProcessCommand("rpush", "l", "a", "b")
			ts.ProcessCommand("pexpire", "l", "1")
			ts.ProcessCommand("hset", "h", "f", "1")
			ts.ProcessCommand("pexpire", "h", "1")
			ts.ProcessCommand("sadd", "z", "a")
			ts.ProcessCommand("pexpire", "z", "1")
			time.Sleep(5 * time.Millisecond)
		},
	}
	checked := 0
	for _, state := range []string{"empty keyspace", "only an expired key", "one key of every type", "every key expired"} {
		for _, line := range lines {
			ts := NewRedisTestClient(t)
			setup[state](ts)
			done := make(chan string, 1)
			go func() {
				defer func() {
					if r := recover(); r != nil {
						done <- fmt.Sprintf("panic: %v", r)
					}
				}()
				args := make([]any, 0, len(line)-1)
				for _, a := range line[1:] {
					args = append(args, a)
				}
				ts.ProcessCommand(line[0], args...)
				done <- ""
			}()
			select {
			case msg := <-done:
				if msg != "" {
					fmt.Printf("BOUNDED-REFUTATION property=C13 state=%q command=%q : %s\n", state, strings.Join(line, " "), msg)
					t.FailNow()
				}
			case <-time.After(3 * time.Second):
				fmt.Printf("BOUNDED-REFUTATION property=C13 state=%q command=%q : no reply within 3s\n", state, strings.Join(line, " "))
				t.FailNow()
			}
			ts.Close()
			checked++
		}
	}
	fmt.Printf("BOUNDED-OK property=C13 commands=%d\n", checked)
}
