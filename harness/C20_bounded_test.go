//go:build verif

package redisemu

// Bounded refutation harness for C20 (termination completes whatever the
// clients are doing). It is NOT a proof and is never counted as one: the C20
// check runs it only when an obligation that was discharged on the pinned tree
// can no longer be generated or discharged, or in the thorough tier. One
// scenario, forced without sockets: an EXEC owns database 0, the saver starts a
// pass (as it does when termination is requested), and EXEC then replays a
// command that needs the table of databases (SELECT 1). With the lock order the
// contract of dataStoreSet.save demands (no database is waited for while the
// table lock is held) the SELECT goes through and the pass ends once EXEC
// releases the database; otherwise both wait for each other.

import (
	"context"
	"fmt"
	"path/filepath"
	"testing"
	"time"

	"github.com/jimsnab/go-lane"
)

func TestGovcBoundedC20(t *testing.T) {
	l := lane.NewNullLane(context.Background())
	var hook DispatchHook
	dss := newDataStoreSet(l, filepath.Join(t.TempDir(), "snap"), &hook)
	ds, valid := dss.getDb(0, true)
	if !valid {
		t.Fatal("no db 0")
	}
	ds.newDataStoreCommand().setKey("k", "v", 0, maxTime)

	exec := ds.newDataStoreCommand()
	exec.acquireExclusive()
	saved := make(chan error, 1)
	go func() { saved <- dss.save(l) }()
	time.Sleep(300 * time.Millisecond)
	selected := make(chan bool, 1)
	go func() {
		_, ok := dss.getDb(1, true)
		selected <- ok
	}()
	stuck := false
	select {
	case <-selected:
	case <-time.After(3 * time.Second):
		stuck = true
	}
	exec.releaseExclusive()
	if stuck {
		fmt.Printf("BOUNDED-REFUTATION property=C20 EXEC owns database 0, the saver starts a pass, EXEC replays SELECT 1 : the SELECT waits for the table of databases while the saver holds it and waits for the database (termination never completes)\n")
		t.FailNow()
	}
	select {
	case <-saved:
	case <-time.After(3 * time.Second):
		fmt.Printf("BOUNDED-REFUTATION property=C20 the saver's pass does not end after EXEC released the database\n")
		t.FailNow()
	}
	fmt.Printf("BOUNDED-OK property=C20 scenarios=1\n")
}
