//go:build verif

package redisemu

// Bounded refutation harness for C14 (databases). NOT a proof and never counted
// as one: the C14 check runs it only to look for a concrete failing input when
// an obligation that was discharged on the pinned tree can no longer be
// generated or discharged (e.g. a loop was restructured so that its invariants
// are unbound). It enumerates every set of up to 3 databases out of
// {0,1,5,9,15}, puts one key into each, and checks FLUSHDB (exactly the
// caller's database is emptied, in place) and FLUSHALL (every database is
// emptied, in place) natively on the real data store set.

import (
	"context"
	"fmt"
	"testing"

	"github.com/jimsnab/go-lane"
)

func bl14count(ds *dataStore) int {
	return ds.newDataStoreCommand().liveKeyCount()
}

func TestGovcBoundedC14(t *testing.T) {
	l := lane.NewTestingLane(context.Background())
	idx := []int{0, 1, 5, 9, 15}
	checked := 0
	for mask := 1; mask < 1<<len(idx); mask++ {
		var dbs []int
		for b := range idx {
			if mask&(1<<b) != 0 {
				dbs = append(dbs, idx[b])
			}
		}
		if len(dbs) > 3 {
			continue
		}
		for mode := 0; mode <= len(dbs); mode++ { // 0 = FLUSHALL, k = FLUSHDB of the k-th database
			var hook DispatchHook
			dss := newDataStoreSet(l, "", &hook)
			stores := map[int]*dataStore{}
			for _, d := range dbs {
				ds, ok := dss.getDb(d, true)
				if !ok || ds == nil {
					fmt.Printf("BOUNDED-REFUTATION property=C14 dbs=%v : database %d cannot be created\n", dbs, d)
					t.FailNow()
				}
				stores[d] = ds
				ds.newDataStoreCommand().rpush("k", [][]byte{[]byte("v")})
			}
			what := "FLUSHALL"
			if mode == 0 {
				dss.flushAll(nil)
			} else {
				what = fmt.Sprintf("FLUSHDB on db %d", dbs[mode-1])
				dss.flushDb(dbs[mode-1], nil)
			}
			for _, d := range dbs {
				now, _ := dss.getDb(d, false)
				if now != stores[d] {
					fmt.Printf("BOUNDED-REFUTATION property=C14 dbs=%v %s : database %d was replaced by another object (connections that selected it keep the old one)\n", dbs, what, d)
					t.FailNow()
				}
				want := 1
				if mode == 0 || dbs[mode-1] == d {
					want = 0
				}
				if got := bl14count(stores[d]); got != want {
					fmt.Printf("BOUNDED-REFUTATION property=C14 dbs=%v %s : database %d holds %d keys afterwards, expected %d\n", dbs, what, d, got, want)
					t.FailNow()
				}
			}
			checked++
		}
	}
	fmt.Printf("BOUNDED-OK property=C14 scenarios=%d\n", checked)
}
