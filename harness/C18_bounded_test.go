//go:build verif

package redisemu

// Bounded refutation harness for C18 (BITFIELD sub-command lists). It is NOT a
// proof and is never counted as one: the C18 check runs it only to look for a
// concrete failing input when an obligation that was discharged on the pinned
// tree can no longer be generated or discharged (annotation unbound after a
// restructuring, engine limit), or in the thorough tier. It runs every BITFIELD
// command made of two sub-commands (GET / SET / INCRBY on u8, i8, i5 fields at
// bit offsets 0, 3, 8), each optionally preceded by an OVERFLOW directive, on
// four 3-byte values through the in-process test client of the real emulator,
// and compares the reply and the stored bytes with the executable
// specification functions of zz_spec_verif.go (the ones the contracts use).

import (
	"fmt"
	"strconv"
	"strings"
	"testing"
)

type bl18op struct {
	kind   string // get, set, incrby
	signed bool
	width  int
	off    int
	val    int64
}

func bl18read(b []byte, o bl18op) int64 {
	v := int64(specField(b, o.off, o.width))
	if o.signed {
		v = specSignExtend(v, o.width)
	}
	return v
}

func bl18write(b []byte, o bl18op, v int64) {
	for i := 0; i < o.width; i++ {
		bit := byte(uint64(v)>>uint(o.width-1-i)) & 1
		pos := o.off + i
		mask := byte(1) << uint(7-pos%8)
		if bit == 1 {
			b[pos/8] |= mask
		} else {
			b[pos/8] &^= mask
		}
	}
}

func TestGovcBoundedC18(t *testing.T) {
	var ops []bl18op
	for _, ty := range []struct {
		s bool
		w int
	}{{false, 8}, {true, 8}, {true, 5}} {
		for _, off := range []int{0, 3, 8} {
			ops = append(ops, bl18op{"get", ty.s, ty.w, off, 0})
			for _, v := range []int64{100, 7} {
				ops = append(ops, bl18op{"set", ty.s, ty.w, off, v})
			}
			for _, v := range []int64{100, -100} {
				ops = append(ops, bl18op{"incrby", ty.s, ty.w, off, v})
			}
		}
	}
	modes := []string{"", "wrap", "sat", "fail"}
	values := []string{"\x00\x00\x00", "\xC8\xC8\xC8", "\x7f\x7f\x7f", "\xff\x80\x01"}
	ts := NewRedisTestClient(t)
	defer ts.Close()
	checked := 0
	for _, initial := range values {
		for _, m1 := range modes {
			for _, o1 := range ops {
				for _, m2 := range modes {
					for _, o2 := range ops {
						ts.ProcessCommand("set", "k", initial)
						args := []any{"k"}
						model := []byte(initial)
						mode := "wrap"
						var want []string
						for i, o := range []bl18op{o1, o2} {
							m := []string{m1, m2}[i]
							if m != "" && o.kind == "get" {
								// the emulator's grammar attaches OVERFLOW to write sub-commands only
								m = ""
							}
							if m != "" {
								args = append(args, "overflow", m)
								mode = m
							}
							ty := "u"
							if o.signed {
								ty = "i"
							}
							ty += strconv.Itoa(o.width)
							cur := bl18read(model, o)
							switch o.kind {
							case "get":
								args = append(args, "get", ty, strconv.Itoa(o.off))
								want = append(want, strconv.FormatInt(cur, 10))
							default:
								args = append(args, o.kind, ty, strconv.Itoa(o.off), strconv.FormatInt(o.val, 10))
								isSet := o.kind == "set"
								dir := specBfDir(o.signed, isSet, cur, o.val, o.width)
								target := specBfTarget(isSet, cur, o.val)
								nv := target
								if dir != 0 {
									switch mode {
									case "wrap":
										nv = specBfWrap(o.signed, target, o.width)
									case "sat":
										nv = specBfLimit(o.signed, dir, o.width)
									case "fail":
										want = append(want, "nil")
										continue
									}
								}
								bl18write(model, o, nv)
								if isSet {
									want = append(want, strconv.FormatInt(cur, 10))
								} else {
									want = append(want, strconv.FormatInt(nv, 10))
								}
							}
						}
						out := ts.ProcessCommand("bitfield", args...)
						var got []string
						if a, ok := out.toNative().([]any); ok {
							for _, e := range a {
								if e == nil {
									got = append(got, "nil")
								} else {
									got = append(got, fmt.Sprint(e))
								}
							}
						} else {
							got = []string{fmt.Sprintf("%v", out.toNative())}
						}
						msg := ""
						if strings.Join(got, ",") != strings.Join(want, ",") {
							msg = fmt.Sprintf("reply %v, expected %v", got, want)
						} else {
							g := ts.ProcessCommand("get", "k")
							if stored, _ := g.toNative().(string); stored != string(model) {
								msg = fmt.Sprintf("stored value %q, expected %q", stored, string(model))
							}
						}
						if msg != "" {
							fmt.Printf("BOUNDED-REFUTATION property=C18 value=%q command=%q : %s\n", initial, fmt.Sprint(append([]any{"bitfield"}, args...)...), msg)
							t.FailNow()
						}
						checked++
					}
				}
			}
		}
	}
	fmt.Printf("BOUNDED-OK property=C18 commands=%d\n", checked)
}
