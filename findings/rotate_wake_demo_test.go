package redisemu

import (
	"testing"
	"time"
)

// Demonstration (C11): the longest waiter is a BLMOVE that rotates the list
// onto itself. A push wakes it; it answers the element, which stays in the
// list (the rotation of a one-element list). The next waiter must then be
// served: it must not stay blocked on a non-empty list.
func TestRotateWakeDemo(t *testing.T) {
	a := NewRedisTestClient(t)
	defer a.Close()
	b := a.AdditionalClient()
	defer b.Close()
	c := a.AdditionalClient()
	defer c.Close()

	ra := make(chan respValue, 1)
	rb := make(chan respValue, 1)
	go func() { ra <- a.ProcessCommand("blmove", "k", "k", "left", "right", "2") }()
	time.Sleep(100 * time.Millisecond)
	go func() { rb <- b.ProcessCommand("blpop", "k", "2") }()
	time.Sleep(100 * time.Millisecond)
	c.ProcessCommand("rpush", "k", "x")

	outA := <-ra
	if outA.data == nil || outA.isErrorType() {
		t.Fatalf("BLMOVE k k replied %v, want x", outA.toNative())
	}
	select {
	case outB := <-rb:
		if outB.data == nil {
			n := c.ProcessCommand("llen", "k")
			t.Fatalf("BLPOP timed out although the list held the element (LLEN k = %v)", n.toNative())
		}
	case <-time.After(3 * time.Second):
		t.Fatal("BLPOP never returned")
	}
}
