package redisemu

import "testing"

// Demonstration (C18): BITFIELD overflow handling.
//   - SET must judge overflow on the given value alone, not on current+value
//   - OVERFLOW SAT must saturate in the direction of the overflow even when
//     the 64-bit sum wraps
func TestBitfieldOverflowDemo(t *testing.T) {
	ts := NewRedisTestClient(t)
	defer ts.Close()

	first := func(out respValue) any {
		a, ok := out.toNative().([]any)
		if !ok || len(a) != 1 {
			t.Fatalf("unexpected reply %v", out.toNative())
		}
		return a[0]
	}

	// i8 field holding 100; SET 100 under OVERFLOW FAIL is in range and must be applied
	ts.ProcessCommand("bitfield", "a", "set", "i8", "0", "100")
	if r := first(ts.ProcessCommand("bitfield", "a", "overflow", "fail", "set", "i8", "0", "100")); r != int64(100) {
		t.Errorf("OVERFLOW FAIL SET i8 0 100 on a field holding 100 replied %v, want 100 (the old value)", r)
	}

	// i8 field holding -128; SET 255 under OVERFLOW SAT must store 127
	ts.ProcessCommand("bitfield", "b", "set", "i8", "0", "-128")
	ts.ProcessCommand("bitfield", "b", "overflow", "sat", "set", "i8", "0", "255")
	if r := first(ts.ProcessCommand("bitfield", "b", "get", "i8", "0")); r != int64(127) {
		t.Errorf("OVERFLOW SAT SET i8 0 255 stored %v, want 127", r)
	}

	// i64 field holding MaxInt64; INCRBY 1 under OVERFLOW SAT stays at MaxInt64
	ts.ProcessCommand("bitfield", "c", "set", "i64", "0", "9223372036854775807")
	if r := first(ts.ProcessCommand("bitfield", "c", "overflow", "sat", "incrby", "i64", "0", "1")); r != int64(9223372036854775807) {
		t.Errorf("OVERFLOW SAT INCRBY i64 0 1 at MaxInt64 replied %v, want 9223372036854775807", r)
	}

	// u63 field holding 2^63-1; INCRBY 1 under OVERFLOW SAT stays at 2^63-1
	ts.ProcessCommand("bitfield", "d", "set", "u63", "0", "9223372036854775807")
	if r := first(ts.ProcessCommand("bitfield", "d", "overflow", "sat", "incrby", "u63", "0", "1")); r != int64(9223372036854775807) {
		t.Errorf("OVERFLOW SAT INCRBY u63 0 1 at 2^63-1 replied %v, want 9223372036854775807", r)
	}
}
