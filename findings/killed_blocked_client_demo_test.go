package redisemu

// Demonstration (C12): a blocked client whose connection is closed by the server
// (CLIENT KILL / termination) must stop competing for elements: a later push
// has to stay in the list for live consumers.

import (
	"bufio"
	"context"
	"net"
	"strings"
	"testing"
	"time"

	"github.com/jimsnab/go-lane"
)

func kbCmd(c net.Conn, r *bufio.Reader, parts ...string) string {
	var sb strings.Builder
	sb.WriteString("*" + itoaKb(len(parts)) + "\r\n")
	for _, p := range parts {
		sb.WriteString("$" + itoaKb(len(p)) + "\r\n" + p + "\r\n")
	}
	c.Write([]byte(sb.String()))
	c.SetReadDeadline(time.Now().Add(2 * time.Second))
	line, _ := r.ReadString('\n')
	return line
}

func itoaKb(n int) string {
	if n == 0 {
		return "0"
	}
	s := ""
	for n > 0 {
		s = string(rune('0'+n%10)) + s
		n /= 10
	}
	return s
}

func TestKilledBlockedClientStopsCompetingDemo(t *testing.T) {
	l := lane.NewTestingLane(context.Background())
	emu, err := NewEmulator(l, 38912, "127.0.0.1", "", nil)
	if err != nil {
		t.Fatal(err)
	}
	emu.Start()
	defer emu.Close()

	a, err := net.Dial("tcp", "127.0.0.1:38912")
	if err != nil {
		t.Fatal(err)
	}
	defer a.Close()
	b, err := net.Dial("tcp", "127.0.0.1:38912")
	if err != nil {
		t.Fatal(err)
	}
	defer b.Close()
	rb := bufio.NewReader(b)

	// A blocks forever on k
	a.Write([]byte("*3\r\n$5\r\nBLPOP\r\n$1\r\nk\r\n$1\r\n0\r\n"))
	time.Sleep(200 * time.Millisecond)

	// B kills every other connection (A), then pushes
	if line := kbCmd(b, rb, "CLIENT", "KILL", "SKIPME", "yes"); !strings.HasPrefix(line, ":") {
		t.Fatalf("CLIENT KILL reply %q", line)
	}
	time.Sleep(200 * time.Millisecond)
	if line := kbCmd(b, rb, "RPUSH", "k", "x"); line != ":1\r\n" {
		t.Fatalf("RPUSH reply %q", line)
	}
	time.Sleep(200 * time.Millisecond)
	if line := kbCmd(b, rb, "LLEN", "k"); line != ":1\r\n" {
		t.Fatalf("the killed, blocked client still consumed the element: LLEN k = %q", line)
	}
}
