package redisemu

import (
	"strings"
	"testing"
)

// Demonstration (C20): several emulators in one process do not affect each
// other's clients: CLIENT LIST / KILL / UNBLOCK on one emulator do not see or
// touch the clients of another.
func TestCrossEmulatorClientsDemo(t *testing.T) {
	a := NewRedisTestClient(t)
	defer a.Close()
	b := NewRedisTestClient(t) // a separate emulator
	defer b.Close()

	bid := b.ClientID()
	list := a.ProcessCommand("client", "list")
	if txt, _ := list.toNative().(string); strings.Contains(txt, "id="+itoa64(bid)+" ") {
		t.Errorf("CLIENT LIST on emulator A shows client %d of emulator B", bid)
	}
	if out := a.ProcessCommand("client", "unblock", itoa64(bid)); !out.isInt(0) {
		t.Errorf("CLIENT UNBLOCK of B's client id on A replied %v, want 0", out.toNative())
	}
	if out := a.ProcessCommand("client", "kill", "id", itoa64(bid)); !out.isInt(0) {
		t.Errorf("CLIENT KILL ID of B's client on A replied %v, want 0", out.toNative())
	}
	if b.(*testClient).IsCloseRequested() {
		t.Errorf("emulator A closed a client of emulator B")
	}
}

func itoa64(n int64) string {
	s := ""
	if n == 0 {
		return "0"
	}
	for n > 0 {
		s = string(rune('0'+n%10)) + s
		n /= 10
	}
	return s
}
