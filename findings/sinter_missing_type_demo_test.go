package redisemu

import "testing"

// Demonstration (C05): a missing operand of SINTER / SINTERSTORE makes the
// result empty but does not hide a later operand of the wrong type; a refused
// SINTERSTORE leaves its destination alone.
func TestSInterMissingTypeDemo(t *testing.T) {
	ts := NewRedisTestClient(t)
	defer ts.Close()
	ts.ProcessCommand("sadd", "a", "1", "2")
	ts.ProcessCommand("sadd", "b", "3")
	ts.ProcessCommand("set", "str", "v")
	if out := ts.ProcessCommand("sinter", "missing", "str"); !out.isErrorType() {
		t.Errorf("SINTER missing str replied %v, want WRONGTYPE", out.toNative())
	}
	if out := ts.ProcessCommand("sinter", "a", "missing", "str"); !out.isErrorType() {
		t.Errorf("SINTER a missing str replied %v, want WRONGTYPE", out.toNative())
	}
	if out := ts.ProcessCommand("sinterstore", "b", "missing", "str"); !out.isErrorType() {
		t.Errorf("SINTERSTORE b missing str replied %v, want WRONGTYPE", out.toNative())
	}
	if out := ts.ProcessCommand("scard", "b"); !out.isInt(1) {
		t.Errorf("the refused SINTERSTORE changed its destination: SCARD b = %v, want 1", out.toNative())
	}
	if out := ts.ProcessCommand("sinterstore", "b", "a", "missing"); !out.isInt(0) {
		t.Errorf("SINTERSTORE b a missing replied %v, want 0", out.toNative())
	}
	if out := ts.ProcessCommand("exists", "b"); !out.isInt(0) {
		t.Errorf("an empty SINTERSTORE left its destination: EXISTS b = %v, want 0", out.toNative())
	}
}
