package redisemu

import "testing"

// Demonstration (C18): a BITPOS range given in bytes (the default unit) covers
// all eight bits of its end byte. After the earlier repair that made BITPOS
// honour the end bit of a BIT range, a byte range ended at the FIRST bit of
// its end byte: SET k "\x00\x01"; BITPOS k 1 replied -1 (the set bit is bit
// 15). Reported by an outside agent; the first-match contract held because it
// spoke about the range after normalisation only.
func TestBitPosByteRangeDemo(t *testing.T) {
	ts := NewRedisTestClient(t)
	defer ts.Close()
	ts.ProcessCommand("set", "k", "\x00\x01")
	ts.ProcessCommand("set", "j", "\x01")
	ts.ProcessCommand("set", "m", "\xff\xfe")
	for _, c := range []struct {
		args []any
		want int64
	}{
		{[]any{"k", "1"}, 15},
		{[]any{"k", "1", "0", "1"}, 15},
		{[]any{"k", "1", "0", "-1"}, 15},
		{[]any{"j", "1", "0", "0"}, 7},
		{[]any{"m", "0", "1"}, 15},
		{[]any{"k", "1", "0", "-1", "bit"}, 15},
		{[]any{"k", "1", "0", "14", "bit"}, -1},
	} {
		out := ts.ProcessCommand("bitpos", c.args...)
		if got, _ := out.toNative().(int64); got != c.want {
			t.Errorf("BITPOS %v replied %v, want %d", c.args, out.toNative(), c.want)
		}
	}
}
