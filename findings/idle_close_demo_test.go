package redisemu

import (
	"context"
	"net"
	"testing"
	"time"

	"github.com/jimsnab/go-lane"
)

// Demonstration (C20): a connection whose close is requested just before it
// starts to wait for the next command must not begin to read. RequestClose
// found nobody reading, so it left the socket open and only queued the
// terminate state; onWaitForCommand then blocked in Read for ever and the
// connection survived termination (and stayed usable).
func TestIdleCloseWindowDemo(t *testing.T) {
	ts := NewRedisTestClient(t)
	defer ts.Close()
	tc, ok := ts.(*testClient)
	if !ok {
		t.Skip("needs the in-process client")
	}
	server, client := net.Pipe()
	defer client.Close()
	// (built by hand: newClientCxn would start the run loop, whose terminate step closes the socket)
	cc := &clientCxn{cxn: server, started: time.Now(), socketState: csNone, csceCh: make(chan *clientStateEvent, 3)}
	cc.cs = newClientState(lane.NewNullLane(context.Background()), cc, tc.cs.disp)
	defer cc.cs.unregister()
	cc.RequestClose()
	done := make(chan struct{})
	go func() { cc.onWaitForCommand(); close(done) }()
	select {
	case <-done:
	case <-time.After(2 * time.Second):
		t.Fatal("after a close request the connection still starts to read and waits for its peer for ever")
	}
}
