package redisemu

import (
	"sync"
	"testing"
)

// Demonstration (C16), run with -race: blocking commands on two databases
// create wake signals concurrently (the id counter is process-wide, the store
// locks are per database), and INFO reads the statistics while connections
// update them.
func TestRaceGlobalsDemo(t *testing.T) {
	ts := NewRedisTestClient(t)
	defer ts.Close()
	var wg sync.WaitGroup
	for i := 0; i < 2; i++ {
		wg.Add(1)
		go func() {
			defer wg.Done()
			for n := 0; n < 200; n++ {
				newWakeSignal()
			}
		}()
	}
	wg.Add(1)
	go func() {
		defer wg.Done()
		for n := 0; n < 200; n++ {
			infoMu.Lock()
			info.total_commands_processed++
			infoMu.Unlock()
		}
	}()
	for n := 0; n < 50; n++ {
		ts.ProcessCommand("info")
	}
	wg.Wait()
}
