package redisemu

import (
	"testing"
	"time"
)

// Demonstration (C11): the longest waiter is woken by a push but answers an
// error without taking the element (BLMOVE onto a key of the wrong type); the
// next waiter must then be served, it must not stay blocked on a non-empty list.
func TestWakeErrorHandoffDemo(t *testing.T) {
	a := NewRedisTestClient(t)
	defer a.Close()
	b := a.AdditionalClient()
	defer b.Close()
	c := a.AdditionalClient()
	defer c.Close()

	c.ProcessCommand("set", "bad", "str")
	ra := make(chan respValue, 1)
	rb := make(chan respValue, 1)
	go func() { ra <- a.ProcessCommand("blmove", "src", "bad", "left", "left", "2") }()
	time.Sleep(100 * time.Millisecond)
	go func() { rb <- b.ProcessCommand("blpop", "src", "2") }()
	time.Sleep(100 * time.Millisecond)
	c.ProcessCommand("rpush", "src", "x")

	outA := <-ra
	if !outA.isErrorType() {
		t.Fatalf("BLMOVE onto a string replied %v, want WRONGTYPE", outA.toNative())
	}
	select {
	case outB := <-rb:
		if outB.data == nil {
			n := c.ProcessCommand("llen", "src")
			t.Fatalf("BLPOP timed out although the list held the element (LLEN src = %v)", n.toNative())
		}
	case <-time.After(3 * time.Second):
		t.Fatal("BLPOP never returned")
	}
}
