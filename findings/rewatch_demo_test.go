package redisemu

import "testing"

// Demonstration (C10): watching a key again does not forget that it was
// modified after the first WATCH.
func TestReWatchDemo(t *testing.T) {
	ts := NewRedisTestClient(t)
	defer ts.Close()
	ts2 := ts.AdditionalClient()
	defer ts2.Close()
	ts.ProcessCommand("set", "k", "v")
	ts.ProcessCommand("watch", "k")
	ts2.ProcessCommand("set", "k", "w")
	ts.ProcessCommand("watch", "k")
	ts.ProcessCommand("multi")
	ts.ProcessCommand("set", "marker", "ran")
	out := ts.ProcessCommand("exec")
	if out.data != nil {
		t.Fatalf("EXEC ran (%v) although k was modified after the first WATCH", out.toNative())
	}
}
