package redisemu

import "testing"

// Demonstration (C18/C13): Redis rejects a bit offset at or beyond 2^32
// ("bit offset is not an integer or out of range"); the emulator must not
// panic or try to allocate the addressed size.
func TestSetBitHugeOffsetDemo(t *testing.T) {
	ts := NewRedisTestClient(t)
	defer ts.Close()
	defer func() {
		if r := recover(); r != nil {
			t.Fatalf("SETBIT with an offset beyond 2^32 panicked: %v", r)
		}
	}()
	out := ts.ProcessCommand("setbit", "k", "9223372036854775807", "1")
	if !out.isErrorType() {
		t.Fatalf("SETBIT k 2^63-1 1 replied %v, want an out-of-range error", out)
	}
	out = ts.ProcessCommand("setbit", "k", "4294967296", "1")
	if !out.isErrorType() {
		t.Fatalf("SETBIT k 2^32 1 replied %v, want an out-of-range error", out)
	}
}
