package redisemu

import (
	"context"
	"os"
	"path/filepath"
	"testing"

	"github.com/jimsnab/go-lane"
)

// Demonstration (C19): an empty string value survives save and restart (it
// came back as a key of no type: GET answered WRONGTYPE), and a stray file
// named like a snapshot of a database that does not exist (<base>.db16) does
// not stop the start-up.
func TestEmptyStringPersistDemo(t *testing.T) {
	l := lane.NewTestingLane(context.Background())
	base := filepath.Join(t.TempDir(), "snap")
	dss := newDataStoreSet(l, base, nil)
	ds, _ := dss.getDb(0, true)
	ds.newDataStoreCommand().setKey("e", "", 0, maxTime)
	ds.newDataStoreCommand().setKey("f", "full", 0, maxTime)
	if err := dss.save(l); err != nil {
		t.Fatal(err)
	}
	data, err := os.ReadFile(base + ".db0")
	if err != nil {
		t.Fatal(err)
	}
	os.WriteFile(base+".db16", data, 0o644)
	os.WriteFile(base+".db-1", data, 0o644)

	again := newDataStoreSet(l, base, nil)
	ds2, ok := again.getDb(0, false)
	if !ok {
		t.Fatal("database 0 was not restored")
	}
	val, ve := ds2.newDataStoreCommand().getKey("e")
	if ve != VALUE_EXISTS || val != "" {
		t.Errorf("after a restart the empty string key reads as (%q, %v), want (\"\", VALUE_EXISTS)", val, ve)
	}
	val, ve = ds2.newDataStoreCommand().getKey("f")
	if ve != VALUE_EXISTS || val != "full" {
		t.Errorf("after a restart key f reads as (%q, %v)", val, ve)
	}
}
