package redisemu

import "testing"

// Demonstration (C03): LREM with the most negative count removes every match
// from the tail (the negation wrapped and nothing was removed).
func TestLRemMinCountDemo(t *testing.T) {
	ts := NewRedisTestClient(t)
	defer ts.Close()
	ts.ProcessCommand("rpush", "l", "a", "b", "a", "c", "a")
	out := ts.ProcessCommand("lrem", "l", "-9223372036854775808", "a")
	if n, _ := out.toNative().(int64); n != 3 {
		t.Errorf("LREM l -9223372036854775808 a replied %v, want 3", out.toNative())
	}
	out = ts.ProcessCommand("llen", "l")
	if n, _ := out.toNative().(int64); n != 2 {
		t.Errorf("afterwards LLEN l is %v, want 2", out.toNative())
	}
}
