package redisemu

import "testing"

// Demonstration (C05): SINTERCARD with a single key is the cardinality of that
// set (bounded by LIMIT), and a missing key does not hide a later key of the
// wrong type.
func TestSInterCardDemo(t *testing.T) {
	ts := NewRedisTestClient(t)
	defer ts.Close()
	ts.ProcessCommand("sadd", "a", "x", "y", "z")
	ts.ProcessCommand("set", "str", "v")
	if out := ts.ProcessCommand("sintercard", "1", "a"); !out.isInt(3) {
		t.Errorf("SINTERCARD 1 a replied %v, want 3", out.toNative())
	}
	if out := ts.ProcessCommand("sintercard", "1", "a", "limit", "2"); !out.isInt(2) {
		t.Errorf("SINTERCARD 1 a LIMIT 2 replied %v, want 2", out.toNative())
	}
	if out := ts.ProcessCommand("sintercard", "2", "missing", "str"); !out.isErrorType() {
		t.Errorf("SINTERCARD 2 missing str replied %v, want WRONGTYPE", out.toNative())
	}
	if out := ts.ProcessCommand("sintercard", "2", "missing", "a"); !out.isInt(0) {
		t.Errorf("SINTERCARD 2 missing a replied %v, want 0", out.toNative())
	}
}
