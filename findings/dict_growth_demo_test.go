package redisemu

// Demonstration of the known finding "unbounded table growth on partial hash
// collisions" (redisDict.store): the two keys below have SipHash values (zero
// key, fixed) that agree in their low 31 bits. Storing both makes store double
// the wanted table size until the uint32 counter wraps to 0 and then calls
// rehash(0), which panics (index out of range); two keys that agree in all low
// 32 bits make the loop spin forever while the database lock is held. Pairs
// agreeing in the low k bits (k < 31) make the server allocate 2^(k+1) buckets
// (k = 27: 2 GiB for one SET).
//
// Run (from /repo): go test -overlay <overlay placing this file in the package> -run TestDictGrowthDemo .

import "testing"

func TestDictGrowthDemo(t *testing.T) {
	defer func() {
		if r := recover(); r != nil {
			t.Logf("store panicked: %v", r)
			return
		}
		t.Fatalf("expected the second store to panic")
	}()
	d := newRedisDict()
	d.store("k28075", "a")
	d.store("k54820", "b")
}
