package redisemu

// Demonstration (C20): after Close, a connection that was open before must not
// be able to read or modify data any more.

import (
	"bufio"
	"context"
	"net"
	"testing"
	"time"

	"github.com/jimsnab/go-lane"
)

func TestCloseDisconnectsClientsDemo(t *testing.T) {
	l := lane.NewTestingLane(context.Background())
	emu, err := NewEmulator(l, 38911, "127.0.0.1", "", nil)
	if err != nil {
		t.Fatal(err)
	}
	emu.Start()
	c, err := net.Dial("tcp", "127.0.0.1:38911")
	if err != nil {
		t.Fatal(err)
	}
	defer c.Close()
	r := bufio.NewReader(c)
	c.Write([]byte("*3\r\n$3\r\nSET\r\n$1\r\nk\r\n$1\r\nv\r\n"))
	c.SetReadDeadline(time.Now().Add(2 * time.Second))
	if line, _ := r.ReadString('\n'); line != "+OK\r\n" {
		t.Fatalf("SET reply %q", line)
	}

	emu.Close()

	c.Write([]byte("*2\r\n$3\r\nGET\r\n$1\r\nk\r\n"))
	c.SetReadDeadline(time.Now().Add(2 * time.Second))
	line, err := r.ReadString('\n')
	if err == nil {
		t.Fatalf("the old connection still answers after Close: %q", line)
	}
	t.Logf("old connection is closed: %v", err)
}
