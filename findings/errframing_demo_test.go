package redisemu

import (
	"bytes"
	"testing"
)

// Demonstration (C01): an error reply that quotes client input must not carry
// the client's CR/LF onto the wire (one simple-error line = one reply).
func TestErrorReplyFramingDemo(t *testing.T) {
	ts := NewRedisTestClient(t)
	defer ts.Close()
	for _, cmd := range [][]any{
		{"client", "x\r\n:1"},
		{"nosuchcmd\r\n+OK", "a"},
		{"nosuchcmd", "a\r\n+OK"},
	} {
		out := ts.ProcessCommand(cmd[0].(string), cmd[1:]...)
		if !out.isErrorType() {
			t.Fatalf("%q: expected an error reply, got %v", cmd, out)
		}
		wire := out.serialize()
		if n := bytes.Count(wire, []byte("\n")); n != 1 || !bytes.HasSuffix(wire, []byte("\r\n")) || bytes.Count(wire, []byte("\r")) != 1 {
			t.Errorf("%q: the error reply is not one RESP line: %q", cmd, wire)
		}
	}
}
