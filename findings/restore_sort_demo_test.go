package redisemu

import (
	"encoding/binary"
	"testing"
)

// Demonstration (C13/C06): RESTORE must validate the payload a client hands it,
// and SORT must work on sets, without panicking.
func TestRestoreSortDemo(t *testing.T) {
	var ts RedisTestClient
	try := func(what string, f func()) {
		ts = NewRedisTestClient(t)
		defer ts.Close()
		defer func() {
			if r := recover(); r != nil {
				t.Errorf("%s panicked: %v", what, r)
			}
		}()
		f()
	}
	payload := func(body []byte) string {
		return string(append(append([]byte{}, body...), simpleChecksum(body)...))
	}

	try("RESTORE of a 10-byte payload", func() {
		out := ts.ProcessCommand("restore", "r1", "0", payload([]byte{1, byte(FLAG_KEY_TYPE_STRING)}))
		if !out.isErrorType() {
			t.Errorf("RESTORE of a truncated payload replied %v", out.toNative())
		}
	})
	try("RESTORE with a length beyond the payload", func() {
		body := []byte{1, byte(FLAG_KEY_TYPE_STRING), 0, 0, 0, 0, 'a', 'b'}
		binary.BigEndian.PutUint32(body[2:6], 1000)
		out := ts.ProcessCommand("restore", "r2", "0", payload(body))
		if !out.isErrorType() {
			t.Errorf("RESTORE with a wrong length replied %v", out.toNative())
		}
	})
	try("DUMP/RESTORE of a list, then LLEN", func() {
		ts.ProcessCommand("rpush", "L", "a")
		d := ts.ProcessCommand("dump", "L")
		s, _ := d.toNative().(string)
		out := ts.ProcessCommand("restore", "L2", "0", s)
		if !out.isErrorType() {
			// if it is accepted, the key must be usable
			ts.ProcessCommand("llen", "L2")
		}
	})
	try("SORT of a set", func() {
		ts.ProcessCommand("sadd", "S", "2", "1")
		out := ts.ProcessCommand("sort", "S")
		a, ok := out.toNative().([]any)
		if !ok || len(a) != 2 || a[0] != "1" || a[1] != "2" {
			t.Errorf("SORT S replied %v, want [1 2]", out.toNative())
		}
	})
}
