package redisemu

import (
	"sync"
	"sync/atomic"
	"testing"
	"time"
)

// Demonstration (C12/C13): CLIENT UNBLOCK / CLIENT LIST / a close request that
// look at the same client at the same time must leave its blocked-state word
// as they found it. Two checkers could both restore what they had swapped out,
// the second one the marker CS_CHECKING itself: the word then stays CS_CHECKING
// forever and every later capture, unblock and isBlocked on that client spins
// (CLIENT UNBLOCK spins while holding the client registry lock).
func TestCheckingStateDemo(t *testing.T) {
	cs := &clientState{unblockCh: make(chan unblockReason, 1)}
	var wg sync.WaitGroup
	stop := time.Now().Add(1500 * time.Millisecond)
	var finished int32
	for g := 0; g < 4; g++ {
		wg.Add(1)
		go func(g int) {
			defer wg.Done()
			for time.Now().Before(stop) {
				if g%2 == 0 {
					cs.unblock("", false)
				} else {
					cs.isBlocked()
				}
			}
			atomic.AddInt32(&finished, 1)
		}(g)
	}
	done := make(chan struct{})
	go func() { wg.Wait(); close(done) }()
	select {
	case <-done:
	case <-time.After(6 * time.Second):
		t.Fatalf("checkers are stuck: %d of 4 finished, blocked word = %d (CS_CHECKING = %d)", atomic.LoadInt32(&finished), atomic.LoadInt32(&cs.blocked), CS_CHECKING)
	}
	if w := atomic.LoadInt32(&cs.blocked); w != CS_UNCAPTURED {
		t.Fatalf("after all checkers left the blocked word is %d, want CS_UNCAPTURED", w)
	}
}
