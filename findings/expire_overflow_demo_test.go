package redisemu

import "testing"

// Demonstration (C07): a relative expire time whose conversion overflows is
// refused (it wrapped: EXPIRE k 9223372036 made the key vanish at once, and a
// huge negative time left it without an expiry in the past), and large but
// representable times are applied.
func TestExpireOverflowDemo(t *testing.T) {
	ts := NewRedisTestClient(t)
	defer ts.Close()
	ts.ProcessCommand("set", "k", "v")
	out := ts.ProcessCommand("expire", "k", "9223372037")
	if n, _ := out.toNative().(int64); n != 1 {
		t.Fatalf("EXPIRE k 9223372037 replied %v, want 1", out.toNative())
	}
	out = ts.ProcessCommand("exists", "k")
	if n, _ := out.toNative().(int64); n != 1 {
		t.Errorf("after EXPIRE k 9223372037 (292 years) the key is gone")
	}
	for _, c := range [][]string{{"expire", "k", "9223372036854775807"}, {"pexpire", "k", "9223372036854775807"}, {"expireat", "k", "9223372036854775807"}, {"expire", "k", "-9223372036854775808"}} {
		out = ts.ProcessCommand(c[0], c[1], c[2])
		if !out.isErrorType() {
			t.Errorf("%v replied %v, want an invalid-expire-time error", c, out.toNative())
		}
		out = ts.ProcessCommand("exists", "k")
		if n, _ := out.toNative().(int64); n != 1 {
			t.Fatalf("after the refused %v the key is gone", c)
		}
	}
	out = ts.ProcessCommand("pexpire", "k", "-9223372036854775808")
	if n, _ := out.toNative().(int64); n != 1 {
		t.Errorf("PEXPIRE k -9223372036854775808 replied %v, want 1", out.toNative())
	}
	out = ts.ProcessCommand("exists", "k")
	if n, _ := out.toNative().(int64); n != 0 {
		t.Errorf("after PEXPIRE k <negative> the key still exists")
	}
}

