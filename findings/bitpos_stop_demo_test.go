package redisemu

import "testing"

// Demonstration (C18): BITPOS with a BIT range whose end falls inside a byte
// must not report a match beyond the end bit.
func TestBitPosStopBitDemo(t *testing.T) {
	ts := NewRedisTestClient(t)
	defer ts.Close()
	ts.ProcessCommand("set", "k", "\x10")
	ts.ProcessCommand("set", "k2", "\x00\x10")
	ts.ProcessCommand("set", "k3", "\xff\xef")
	for _, c := range []struct {
		args []any
		want int
	}{
		{[]any{"k", "1", "0", "2", "bit"}, -1},
		{[]any{"k", "1", "0", "3", "bit"}, 3},
		{[]any{"k2", "1", "0", "10", "bit"}, -1},
		{[]any{"k2", "1", "2", "10", "bit"}, -1},
		{[]any{"k2", "1", "2", "11", "bit"}, 11},
		{[]any{"k3", "0", "0", "10", "bit"}, -1},
		{[]any{"k3", "0", "0", "11", "bit"}, 11},
	} {
		out := ts.ProcessCommand("bitpos", c.args...)
		if !out.isInt(c.want) {
			t.Errorf("BITPOS %v replied %v, want %d", c.args, out.toNative(), c.want)
		}
	}
}
