package redisemu

import "testing"

// Demonstration (C06/C07): SORT ... STORE dst replaces the destination - it
// appended to an existing list and kept its expiry - and an empty result
// removes the destination instead of leaving (or creating) an empty list.
func TestSortStoreDemo(t *testing.T) {
	ts := NewRedisTestClient(t)
	defer ts.Close()
	ts.ProcessCommand("rpush", "src", "3", "1", "2")
	ts.ProcessCommand("rpush", "dst", "old")
	ts.ProcessCommand("expire", "dst", "100")
	out := ts.ProcessCommand("sort", "src", "store", "dst")
	if n, _ := out.toNative().(int64); n != 3 {
		t.Errorf("SORT src STORE dst replied %v, want 3", out.toNative())
	}
	out = ts.ProcessCommand("llen", "dst")
	if n, _ := out.toNative().(int64); n != 3 {
		t.Errorf("after SORT src STORE dst the destination holds %v elements, want 3", out.toNative())
	}
	out = ts.ProcessCommand("ttl", "dst")
	if n, _ := out.toNative().(int64); n != -1 {
		t.Errorf("after SORT src STORE dst the destination has TTL %v, want -1", out.toNative())
	}
	out = ts.ProcessCommand("sort", "nokey", "store", "dst")
	if n, _ := out.toNative().(int64); n != 0 {
		t.Errorf("SORT nokey STORE dst replied %v, want 0", out.toNative())
	}
	out = ts.ProcessCommand("exists", "dst")
	if n, _ := out.toNative().(int64); n != 0 {
		t.Errorf("after SORT nokey STORE dst the destination still exists")
	}
	out = ts.ProcessCommand("sort", "nokey", "store", "fresh")
	out = ts.ProcessCommand("exists", "fresh")
	if n, _ := out.toNative().(int64); n != 0 {
		t.Errorf("SORT nokey STORE fresh created an empty key")
	}
}
