package redisemu

import (
	"fmt"
	"testing"
	"time"
)

// Demonstration (C07): a deadline given as EXAT T is T, whatever the sub-second
// part of the clock is when the command runs; an expire time whose conversion
// to nanoseconds overflows is refused.
func TestExAtDeadlineDemo(t *testing.T) {
	ts := NewRedisTestClient(t)
	defer ts.Close()
	for time.Now().Nanosecond() < 300*1000*1000 {
		time.Sleep(10 * time.Millisecond)
	}
	T := time.Now().Unix() + 100
	ts.ProcessCommand("set", "k", "v", "exat", fmt.Sprint(T))
	out := ts.ProcessCommand("pexpiretime", "k")
	got, _ := out.toNative().(int64)
	if got != T*1000 {
		t.Errorf("SET k v EXAT %d: PEXPIRETIME is %d, want %d", T, got, T*1000)
	}
	// the deadline is reported as it was given (EXPIRETIME is in whole seconds)
	out = ts.ProcessCommand("expiretime", "k")
	if sec, _ := out.toNative().(int64); sec != T {
		t.Errorf("SET k v EXAT %d: EXPIRETIME is %d, want %d", T, sec, T)
	}
	ts.ProcessCommand("set", "g", "v")
	ts.ProcessCommand("getex", "g", "exat", fmt.Sprint(T))
	out = ts.ProcessCommand("pexpiretime", "g")
	got, _ = out.toNative().(int64)
	if got != T*1000 {
		t.Errorf("GETEX g EXAT %d: PEXPIRETIME is %d, want %d", T, got, T*1000)
	}
	out = ts.ProcessCommand("set", "o", "v", "ex", "9223372036854775807")
	if !out.isErrorType() {
		t.Errorf("SET o v EX 9223372036854775807 replied %v, want an invalid-expire-time error", out.toNative())
	}
}

// Demonstration (C07/C02): an EXAT time that does not fit 64-bit milliseconds is
// refused (SET big 1 EXAT 9223372036854775807 replied OK and the key was gone:
// the time wrapped into the past).
func TestExAtHugeDemo(t *testing.T) {
	ts := NewRedisTestClient(t)
	defer ts.Close()
	out := ts.ProcessCommand("set", "big", "1", "exat", "9223372036854775807")
	if !out.isErrorType() {
		t.Errorf("SET big 1 EXAT 9223372036854775807 replied %v, want an invalid-expire-time error", out.toNative())
	}
	out = ts.ProcessCommand("exists", "big")
	if n, _ := out.toNative().(int64); n != 0 {
		t.Errorf("the refused SET created the key")
	}
}
