package redisemu

import "testing"

// Demonstration (C13/C18): SETBIT on a key that holds another type answers
// WRONGTYPE; it must not panic.
func TestSetBitWrongTypeDemo(t *testing.T) {
	ts := NewRedisTestClient(t)
	defer ts.Close()
	ts.ProcessCommand("hset", "a", "f", "1")
	defer func() {
		if r := recover(); r != nil {
			t.Fatalf("SETBIT on a hash panicked: %v", r)
		}
	}()
	out := ts.ProcessCommand("setbit", "a", "6", "1")
	if !out.isErrorType() {
		t.Fatalf("SETBIT on a hash replied %v, want WRONGTYPE", out.toNative())
	}
}
