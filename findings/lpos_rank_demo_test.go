package redisemu

import "testing"

// Demonstration (C03): LPOS with RANK -9223372036854775808 (which cannot be
// negated) is refused as redis does, not treated as "first from the tail".
func TestLPosRankMinIntDemo(t *testing.T) {
	ts := NewRedisTestClient(t)
	defer ts.Close()
	ts.ProcessCommand("rpush", "k", "a", "b", "a")
	out := ts.ProcessCommand("lpos", "k", "a", "rank", "-9223372036854775808")
	if !out.isErrorType() {
		t.Fatalf("LPOS k a RANK -9223372036854775808 replied %v, want an out-of-range error", out.toNative())
	}
}
