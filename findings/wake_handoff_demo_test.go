package redisemu

import (
	"context"
	"testing"

	"github.com/jimsnab/go-lane"
)

// Demonstration (C11): two clients wait on k (A first). A push wakes A, the
// longest waiter, but A is already leaving (its timeout or an unblock won the
// race) and never looks at the list. The wake-up must pass to B; otherwise B
// stays blocked on a non-empty list.
func TestWakeHandoffDemo(t *testing.T) {
	l := lane.NewTestingLane(context.Background())
	dss := newDataStoreSet(l, "", nil)
	ds, _ := dss.getDb(0, true)

	wsA := ds.enterListBlock("k")
	wsB := ds.enterListBlock("k")

	dsc := ds.newDataStoreCommand()
	dsc.rpush("k", [][]byte{[]byte("v")})

	// A leaves without having received from wsA.ready
	ds.leaveListBlock(wsA)

	select {
	case <-wsB.ready:
	default:
		t.Fatalf("the only wake-up went to a waiter that was leaving; the next waiter was not woken although LLEN k = %v", dsc.llen("k").data)
	}
	ds.leaveListBlock(wsB)
}
