package redisemu

// Demonstration (C11): a client woken by a push whose retry finds the element
// already taken by another consumer goes back to waiting WITHOUT being in the
// key's wait queue any more, so the next push wakes nobody: the client stays
// blocked while the list is non-empty.
//
// The race "another consumer takes the element between the wake-up and the
// retry" is scripted: the blocked client's operation reports "nothing" on its
// third call (initial try, try after registering, retry after the wake-up),
// exactly what LPOP by another connection in that window produces.

import (
	"context"
	"sync/atomic"
	"testing"
	"time"

	"github.com/jimsnab/go-lane"
)

func TestLostWakeupDemo(t *testing.T) {
	l := lane.NewTestingLane(context.Background())
	ds := newDataStore()
	cs := &clientState{l: l, unblockCh: make(chan unblockReason, 1), watches: map[watchKey]uint64{}}
	ctx := &cmdContext{l: l, cs: cs, dsc: ds.newDataStoreCommand()}

	var calls int32
	got := make(chan respValue, 1)
	op := func() (output respValue) {
		n := atomic.AddInt32(&calls, 1)
		if n == 3 {
			return // another consumer was faster
		}
		vals, _ := ds.newDataStoreCommand().lpop("k", 1)
		if len(vals) == 1 {
			output.data = respBulkString(string(vals[0]))
		}
		return
	}
	go func() { got <- blockOnListChange(ctx, "k", 0, op) }()

	// wait until the client is registered and waiting
	for atomic.LoadInt32(&calls) < 2 {
		time.Sleep(time.Millisecond)
	}
	time.Sleep(20 * time.Millisecond)

	pusher := ds.newDataStoreCommand()
	pusher.rpush("k", [][]byte{[]byte("x")}) // wakes the client; its retry (call 3) loses the race
	for atomic.LoadInt32(&calls) < 3 {
		time.Sleep(time.Millisecond)
	}
	time.Sleep(20 * time.Millisecond)

	pusher.rpush("k", [][]byte{[]byte("y")}) // the list is non-empty and nobody else consumes

	select {
	case v := <-got:
		t.Logf("client completed with %v", v.data)
	case <-time.After(2 * time.Second):
		t.Fatalf("client is still blocked although the list holds elements (lost wake-up)")
	}
}
