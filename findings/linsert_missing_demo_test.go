package redisemu

import "testing"

// Demonstration (C13): LINSERT with its last argument missing is an arity
// error; it must not reach the handler and panic there.
func TestLInsertMissingElementDemo(t *testing.T) {
	ts := NewRedisTestClient(t)
	defer ts.Close()
	ts.ProcessCommand("rpush", "l", "a")
	defer func() {
		if r := recover(); r != nil {
			t.Fatalf("LINSERT l BEFORE a panicked: %v", r)
		}
	}()
	for _, cmd := range [][]any{{"linsert", "l", "before", "a"}, {"linsert", "l", "before"}, {"lmove", "l", "m", "left"}, {"blmove", "l", "m", "left", "0"}} {
		out := ts.ProcessCommand(cmd[0].(string), cmd[1:]...)
		if !out.isErrorType() {
			t.Fatalf("%v replied %v, want an arity error", cmd, out.toNative())
		}
	}
	if out := ts.ProcessCommand("linsert", "l", "before", "a", "b"); !out.isInt(2) {
		t.Fatalf("LINSERT l BEFORE a b replied %v, want 2", out.toNative())
	}
	if out := ts.ProcessCommand("lmove", "l", "m", "left", "right"); !out.isString("b") {
		t.Fatalf("LMOVE l m LEFT RIGHT replied %v, want b", out.toNative())
	}
}
