package redisemu

import (
	"testing"
	"time"
)

// Demonstration (C12): a blocking command's timeout is honoured at the edges:
// a tiny positive timeout ends (it must not turn into "wait forever"), a huge
// one does not wrap into the past, and a negative one is an error.
func TestBlockTimeoutEdgesDemo(t *testing.T) {
	ts := NewRedisTestClient(t)
	defer ts.Close()

	run := func(args ...any) (respValue, bool) {
		done := make(chan respValue, 1)
		go func() { done <- ts.ProcessCommand(args[0].(string), args[1:]...) }()
		select {
		case out := <-done:
			return out, true
		case <-time.After(1500 * time.Millisecond):
			return respValue{}, false
		}
	}

	if out, ended := run("blmove", "missing", "dest", "left", "left", "-1"); !ended || !out.isErrorType() {
		t.Errorf("BLMOVE with timeout -1: ended=%v reply=%v, want an error reply", ended, out.toNative())
	}
	if out, ended := run("blpop", "missing", "1e-10"); !ended || out.data != nil {
		t.Fatalf("BLPOP with timeout 1e-10: ended=%v reply=%v, want a null reply (it blocked forever)", ended, out.toNative())
	}
	ts2 := ts.AdditionalClient()
	defer ts2.Close()
	start := time.Now()
	done := make(chan respValue, 1)
	go func() { done <- ts.ProcessCommand("blmove", "missing", "dest", "left", "left", "10000000000") }()
	select {
	case out := <-done:
		if !out.isErrorType() {
			t.Errorf("BLMOVE with timeout 1e10 returned %v after %v (the deadline wrapped into the past)", out.toNative(), time.Since(start))
		}
	case <-time.After(300 * time.Millisecond):
		// still blocked: fine; release it
		ts2.ProcessCommand("client", "unblock", "1")
		ts2.ProcessCommand("rpush", "missing", "x")
		<-done
	}
}
