package redisemu

import "testing"

// Demonstration (C02): SETRANGE with an empty value writes nothing: a missing
// key is not created, an existing value is not padded, the reply is the
// current length.
func TestSetRangeEmptyValueDemo(t *testing.T) {
	ts := NewRedisTestClient(t)
	defer ts.Close()
	if out := ts.ProcessCommand("setrange", "missing", "5", ""); !out.isInt(0) {
		t.Errorf("SETRANGE missing 5 \"\" replied %v, want 0", out.toNative())
	}
	if out := ts.ProcessCommand("exists", "missing"); !out.isInt(0) {
		t.Errorf("SETRANGE with an empty value created the key")
	}
	ts.ProcessCommand("set", "s", "abc")
	if out := ts.ProcessCommand("setrange", "s", "10", ""); !out.isInt(3) {
		t.Errorf("SETRANGE s 10 \"\" replied %v, want 3", out.toNative())
	}
	if out := ts.ProcessCommand("get", "s"); !out.isString("abc") {
		t.Errorf("SETRANGE with an empty value changed s to %v", out.toNative())
	}
}
