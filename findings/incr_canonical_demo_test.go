package redisemu

import "testing"

// Demonstration (C02/C04): counters reject values that are not canonical
// integers ("+5", "012", "-0"), as redis does, and leave them unchanged.
func TestIncrCanonicalDemo(t *testing.T) {
	ts := NewRedisTestClient(t)
	defer ts.Close()
	for _, v := range []string{"+5", "012", "-0", " 7"} {
		ts.ProcessCommand("set", "k", v)
		if out := ts.ProcessCommand("incr", "k"); !out.isErrorType() {
			t.Errorf("INCR on %q replied %v, want an error", v, out.toNative())
		}
		if g := ts.ProcessCommand("get", "k"); !g.isString(v) {
			t.Errorf("INCR changed %q to %v", v, g.toNative())
		}
		ts.ProcessCommand("hset", "h", "f", v)
		if out := ts.ProcessCommand("hincrby", "h", "f", "1"); !out.isErrorType() {
			t.Errorf("HINCRBY on %q replied %v, want an error", v, out.toNative())
		}
	}
	ts.ProcessCommand("set", "k", "-5")
	if out := ts.ProcessCommand("incr", "k"); !out.isInt(-4) {
		t.Errorf("INCR on -5 replied %v", out.toNative())
	}
}
