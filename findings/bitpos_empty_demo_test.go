package redisemu

import "testing"

// Demonstration (C13/C18): BITPOS on an empty string value with a negative
// start and a non-negative end must answer -1, not panic.
func TestBitPosEmptyValueDemo(t *testing.T) {
	ts := NewRedisTestClient(t)
	defer ts.Close()
	ts.ProcessCommand("set", "e", "")
	defer func() {
		if r := recover(); r != nil {
			t.Fatalf("BITPOS on an empty value panicked: %v", r)
		}
	}()
	for _, args := range [][]any{{"e", "1", "-1", "0"}, {"e", "0", "-1", "5"}, {"e", "1", "-3", "2", "bit"}} {
		out := ts.ProcessCommand("bitpos", args...)
		if !out.isInt(-1) {
			t.Errorf("BITPOS %v replied %v, want -1", args, out.toNative())
		}
	}
}
