package redisemu

import (
	"testing"
	"time"
)

// Demonstration (C09): a queued CLIENT LIST / CLIENT INFO must not deadlock
// EXEC (the replay already owns the store exclusively).
func TestExecClientListDemo(t *testing.T) {
	ts := NewRedisTestClient(t)
	defer ts.Close()
	for _, sub := range []string{"list", "info"} {
		ts.ProcessCommand("multi")
		ts.ProcessCommand("client", sub)
		done := make(chan respValue, 1)
		go func() { done <- ts.ProcessCommand("exec") }()
		select {
		case out := <-done:
			a, ok := out.toNative().([]any)
			if !ok || len(a) != 1 {
				t.Fatalf("MULTI; CLIENT %s; EXEC replied %v", sub, out.toNative())
			}
		case <-time.After(3 * time.Second):
			t.Fatalf("MULTI; CLIENT %s; EXEC did not return (self-deadlock on the store lock)", sub)
		}
	}
}
