package redisemu

import (
	"sync"
	"testing"
)

// Demonstration (C16), run with -race: CLIENT LIST on one connection while
// another connection of the same emulator changes its name, database,
// protocol version and watched keys.
func TestRaceClientListDemo(t *testing.T) {
	a := NewRedisTestClient(t)
	defer a.Close()
	b := a.AdditionalClient()
	defer b.Close()
	var wg sync.WaitGroup
	wg.Add(1)
	go func() {
		defer wg.Done()
		for i := 0; i < 200; i++ {
			b.ProcessCommand("client", "setname", "x")
			b.ProcessCommand("select", "1")
			b.ProcessCommand("select", "0")
			b.ProcessCommand("watch", "k")
			b.ProcessCommand("unwatch")
			b.ProcessCommand("hello", "3")
		}
	}()
	for i := 0; i < 200; i++ {
		a.ProcessCommand("client", "list")
	}
	wg.Wait()
}
