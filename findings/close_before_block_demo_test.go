package redisemu

import (
	"testing"
	"time"
)

// Demonstration (C12): a connection whose close was requested before its
// blocking command started to wait must not wait for (and later consume) an
// element.
func TestCloseBeforeBlockDemo(t *testing.T) {
	live := NewRedisTestClient(t)
	defer live.Close()
	dead := live.AdditionalClient()

	dead.(*testClient).RequestClose()
	done := make(chan respValue, 1)
	go func() { done <- dead.ProcessCommand("blmove", "k", "d1", "left", "left", "0") }()
	select {
	case <-done:
	case <-time.After(500 * time.Millisecond):
		live.ProcessCommand("rpush", "k", "a")
		n := live.ProcessCommand("llen", "k")
		t.Fatalf("a connection with a pending close request still blocks; after RPUSH k a, LLEN k = %v (nobody may take it but a live client)", n.toNative())
	}
}
