package redisemu

import "testing"

// Demonstration (C02): INCRBYFLOAT refuses a result that is not a finite
// number and leaves the value unchanged.
func TestIncrByFloatInfinityDemo(t *testing.T) {
	ts := NewRedisTestClient(t)
	defer ts.Close()
	ts.ProcessCommand("set", "f", "1e308")
	out := ts.ProcessCommand("incrbyfloat", "f", "1e308")
	if !out.isErrorType() {
		t.Errorf("INCRBYFLOAT f 1e308 on 1e308 replied %v, want an error", out.toNative())
	}
	if g := ts.ProcessCommand("get", "f"); !g.isString("1e308") {
		t.Errorf("the value changed to %v", g.toNative())
	}
}
