package redisemu

import "testing"

// Demonstration (C18): bit offsets run up to 2^32-1 for every bitmap command.
// BITFIELD parsed its offsets 32 bits wide and refused everything from 2^31 on;
// GETBIT accepted offsets beyond 2^32-1 (redis refuses them).
func TestBitOffsetRangeDemo(t *testing.T) {
	ts := NewRedisTestClient(t)
	defer ts.Close()
	out := ts.ProcessCommand("bitfield", "k", "get", "u8", "2147483648")
	if out.isErrorType() {
		t.Errorf("BITFIELD k GET u8 2147483648 is refused: %v", out.toNative())
	}
	out = ts.ProcessCommand("bitfield", "k", "get", "u8", "4294967296")
	if !out.isErrorType() {
		t.Errorf("BITFIELD k GET u8 4294967296 replied %v, want an offset error", out.toNative())
	}
	out = ts.ProcessCommand("getbit", "k", "4294967295")
	if n, _ := out.toNative().(int64); out.isErrorType() || n != 0 {
		t.Errorf("GETBIT k 4294967295 replied %v, want 0", out.toNative())
	}
	out = ts.ProcessCommand("getbit", "k", "4294967296")
	if !out.isErrorType() {
		t.Errorf("GETBIT k 4294967296 replied %v, want an offset error", out.toNative())
	}
}
